// Package c10: typed Debian documents decode to exactly the fields written in them.
package c10

import (
	"bufio"
	"bytes"
	"encoding/json"
	"fmt"
	"os"
	"path/filepath"
	"reflect"
	"strings"
	"sync"

	"pault.ag/go/debian/control"
	"pault.ag/go/debian/deb"
	"pault.ag/go/debian/dependency"

	"verifharness/gen"
	"verifharness/mc"
	"verifharness/props/reg"
	"verifharness/sched"
)

func init() { reg.Register(&reg.Prop{ID: "C10", Run: Run, Replay: Replay}) }

// In is the replayable input: document kind, per paragraph the choice per field (-1 absent, else variant index),
// extra dependency fields for index entries, and the environment answers.
type In struct {
	Kind     string
	Choices  [][]int
	Extra    []int // index kinds: per extra dependency key -1 absent or variant index (first paragraph only)
	BufSize  int   // size of the caller's bufio.Reader (0 = default)
	Delivery int   // gen.Delivery mode
	Peek     int   `json:",omitempty"` // the caller has looked ahead in its bufio.Reader before handing it over: 1 = one byte, 2 = as much as one fill gives
	Devs     []string
	// Via selects the entry point: "" = Parse<Kind>(reader, path); otherwise Parse<Kind>File with the document on disk
	// and the path given as "file-abs" (absolute), "file-rel" (bare name, working directory = its directory),
	// "file-dotrel" (./incoming/<name> from the parent) or "file-parent" (../<name> from a subdirectory)
	Via string `json:",omitempty"`
}

const readerDocPath = "/srv/incoming/upload/hello_2.10-1.dsc"

var fileVias = []string{"file-abs", "file-rel", "file-dotrel", "file-parent"}

// debVias: the encodings of control.tar the harness can produce in-process (xz and bzip2 need an external tool and are
// C14's business)
var debVias = []string{"deb:none", "deb:gz", "deb:lzma", "deb:zst"}

var debComp = gen.NewDebCompressor()

var (
	fileRootOnce sync.Once
	fileRootDir  string
	cwdMu        sync.Mutex // the working directory is process-wide: file-entry executions are serialised
)

// fileRoot is a scratch directory <tmp>/verif-c10-<pid>/ with incoming/ and incoming/sub/ (removed by Run at the end).
func fileRoot() string {
	fileRootOnce.Do(func() {
		d, err := os.MkdirTemp("", "verif-c10-")
		if err != nil {
			panic(err)
		}
		if r, err := filepath.EvalSymlinks(d); err == nil {
			d = r
		}
		if err := os.MkdirAll(filepath.Join(d, "incoming", "sub"), 0o755); err != nil {
			panic(err)
		}
		fileRootDir = d
	})
	return fileRootDir
}

// docPathOf is the absolute path the parsed document must carry as its Filename.
func docPathOf(in In) string {
	if !strings.HasPrefix(in.Via, "file-") {
		return readerDocPath
	}
	return filepath.Join(fileRoot(), "incoming", "hello_2.10-1."+in.Kind)
}

type getDSCResult struct{ err, filename, source, version string }

var getDSCResults sync.Map // *control.Changes -> getDSCResult (taken while the files were on disk)

// baselineIn is the kind's full baseline document: every field present in its first variant.
func baselineIn(kind string) In {
	kd := kindByName(kind)
	in := In{Kind: kind}
	for _, t := range kd.tables(kd.nBase) {
		in.Choices = append(in.Choices, make([]int, len(t)))
	}
	for range extraKeys(kind) {
		in.Extra = append(in.Extra, 0)
	}
	return in
}

// parseFile puts text on disk and calls the kind's Parse...File entry point with the path form in.Via selects.
func parseFile(in In, text string) (paras []reflect.Value, err error) {
	abs := docPathOf(in)
	cwdMu.Lock()
	defer cwdMu.Unlock()
	if err := os.WriteFile(abs, []byte(text), 0o644); err != nil {
		return nil, fmt.Errorf("harness: %v", err)
	}
	defer os.Remove(abs)
	old, err := os.Getwd()
	if err != nil {
		return nil, fmt.Errorf("harness: %v", err)
	}
	defer os.Chdir(old)
	arg, wd := abs, ""
	switch in.Via {
	case "file-rel":
		arg, wd = filepath.Base(abs), filepath.Dir(abs)
	case "file-dotrel":
		arg, wd = "./incoming/"+filepath.Base(abs), fileRoot()
	case "file-parent":
		arg, wd = "../"+filepath.Base(abs), filepath.Join(filepath.Dir(abs), "sub")
	}
	if wd != "" {
		if err := os.Chdir(wd); err != nil {
			return nil, fmt.Errorf("harness: %v", err)
		}
	}
	switch in.Kind {
	case "dsc":
		d, e := control.ParseDscFile(arg)
		if e != nil {
			return nil, e
		}
		return []reflect.Value{reflect.ValueOf(d).Elem()}, nil
	case "changes":
		c, e := control.ParseChangesFile(arg)
		if e != nil {
			return nil, e
		}
		// the source package the upload lists sits next to the .changes: GetDSC must find it from any working directory
		dscText, _ := render(baselineIn("dsc"))
		dscAbs := filepath.Join(filepath.Dir(abs), h1.name)
		if err := os.WriteFile(dscAbs, []byte(dscText), 0o644); err != nil {
			return nil, fmt.Errorf("harness: %v", err)
		}
		defer os.Remove(dscAbs)
		var res getDSCResult
		if p, msg := mc.Guard(func() {
			d, err := c.GetDSC()
			if err != nil {
				res.err = err.Error()
				if d != nil {
					res.err += " (together with a value)"
				}
				return
			}
			res.filename, res.source, res.version = d.Filename, d.Source, d.Version.String()
		}); p {
			res.err = "panic: " + msg
		}
		getDSCResults.Store(c, res)
		return []reflect.Value{reflect.ValueOf(c).Elem()}, nil
	case "control":
		c, e := control.ParseControlFile(arg)
		if e != nil {
			return nil, e
		}
		if c.Filename != abs {
			return nil, fmt.Errorf("Control.Filename is %q, the document is %q", c.Filename, abs)
		}
		out := []reflect.Value{reflect.ValueOf(&c.Source).Elem()}
		for i := range c.Binaries {
			out = append(out, reflect.ValueOf(&c.Binaries[i]).Elem())
		}
		return out, nil
	}
	return nil, fmt.Errorf("harness: no file entry point for kind %s", in.Kind)
}

type kindDef struct {
	name  string
	paras func(n int) [][]FSpec // paragraph field tables for a document with n paragraphs
	nBase int                   // baseline number of paragraphs
	nMin  int
	nMax  int
}

// WrappedDSC / WrappedSource: user structs that embed a typed document (and the best-checksum selector) anonymously.
type WrappedDSC struct {
	control.DSC
	Note string `control:"X-Note"`
}

type WrappedSource struct {
	control.SourceIndex
	control.BestChecksums
}

var kinds = []kindDef{
	{"dsc", func(int) [][]FSpec { return [][]FSpec{dscFields()} }, 1, 1, 1},
	{"changes", func(int) [][]FSpec { return [][]FSpec{changesFields()} }, 1, 1, 1},
	{"control", func(n int) [][]FSpec {
		out := [][]FSpec{sourceParaFields()}
		for i := 1; i < n; i++ {
			out = append(out, binaryParaFields(fmt.Sprintf("hello-bin%d", i)))
		}
		return out
	}, 3, 1, 4},
	{"packages", func(n int) [][]FSpec {
		var out [][]FSpec
		for i := 0; i < n; i++ {
			out = append(out, packagesFields(fmt.Sprintf("hello%d", i)))
		}
		return out
	}, 2, 1, 3},
	{"sources", func(n int) [][]FSpec {
		var out [][]FSpec
		for i := 0; i < n; i++ {
			out = append(out, sourcesFields(fmt.Sprintf("hello%d", i)))
		}
		return out
	}, 2, 1, 3},
	{"debcontrol", func(int) [][]FSpec { return [][]FSpec{debControlFields()} }, 1, 1, 1},
	{"embedded-dsc", func(int) [][]FSpec { return [][]FSpec{dscFields()} }, 1, 1, 1},
	{"embedded-sources", func(n int) [][]FSpec {
		var out [][]FSpec
		for i := 0; i < n; i++ {
			out = append(out, sourcesFields(fmt.Sprintf("hello%d", i)))
		}
		return out
	}, 2, 1, 2},
}

var (
	tableMu    sync.Mutex
	tableCache = map[string][][]FSpec{}
)

// tables returns the (cached, read-only) field tables of a kind with n paragraphs.
func (k *kindDef) tables(n int) [][]FSpec {
	key := fmt.Sprintf("%s/%d", k.name, n)
	tableMu.Lock()
	defer tableMu.Unlock()
	if t, ok := tableCache[key]; ok {
		return t
	}
	t := k.paras(n)
	for i := range t {
		t[i] = withAudit(t[i])
	}
	tableCache[key] = t
	return t
}

var depVarsOnce = depVariants()

func kindByName(n string) *kindDef {
	for i := range kinds {
		if kinds[i].name == n {
			return &kinds[i]
		}
	}
	return nil
}

func extraKeys(kind string) []string {
	switch kind {
	case "packages":
		return indexDepKeys
	case "sources":
		return sourceDepKeys
	}
	return nil
}

func render(in In) (string, [][]FSpec) {
	k := kindByName(in.Kind)
	tables := k.tables(len(in.Choices))
	var sb strings.Builder
	for pi, t := range tables {
		if pi > 0 {
			sb.WriteString("\n")
		}
		for fi, f := range t {
			c := in.Choices[pi][fi]
			if c < 0 {
				continue
			}
			sb.WriteString(renderField(f.Key, f.Vars[c]))
		}
		if pi == 0 {
			dv := depVarsOnce
			for ei, key := range extraKeys(in.Kind) {
				if ei < len(in.Extra) && in.Extra[ei] >= 0 {
					sb.WriteString(renderField(key, dv[in.Extra[ei]]))
				}
			}
		}
	}
	return sb.String(), tables
}

// parse runs the kind's typed parser and returns the decoded paragraphs as reflect values.
func parse(in In, text string) (paras []reflect.Value, err error) {
	if strings.HasPrefix(in.Via, "file-") {
		return parseFile(in, text)
	}
	docPath := docPathOf(in)
	var br *bufio.Reader
	rd := gen.Delivery(text, in.Delivery)
	if in.BufSize > 0 {
		br = bufio.NewReaderSize(rd, in.BufSize)
	} else {
		br = bufio.NewReader(rd)
	}
	switch in.Peek {
	case 1:
		br.Peek(1)
	case 2:
		br.Peek(1)
		br.Peek(br.Buffered())
	}
	switch in.Kind {
	case "dsc":
		d, e := control.ParseDsc(br, docPath)
		if e != nil {
			if d != nil {
				return nil, fmt.Errorf("VALUE-AND-ERROR: %v", e)
			}
			return nil, e
		}
		return []reflect.Value{reflect.ValueOf(d).Elem()}, nil
	case "changes":
		c, e := control.ParseChanges(br, docPath)
		if e != nil {
			return nil, e
		}
		return []reflect.Value{reflect.ValueOf(c).Elem()}, nil
	case "control":
		c, e := control.ParseControl(br, docPath)
		if e != nil {
			return nil, e
		}
		out := []reflect.Value{reflect.ValueOf(&c.Source).Elem()}
		for i := range c.Binaries {
			out = append(out, reflect.ValueOf(&c.Binaries[i]).Elem())
		}
		return out, nil
	case "packages":
		l, e := control.ParseBinaryIndex(br)
		if e != nil {
			return nil, e
		}
		var out []reflect.Value
		for i := range l {
			out = append(out, reflect.ValueOf(&l[i]).Elem())
		}
		return out, nil
	case "sources":
		l, e := control.ParseSourceIndex(br)
		if e != nil {
			return nil, e
		}
		var out []reflect.Value
		for i := range l {
			out = append(out, reflect.ValueOf(&l[i]).Elem())
		}
		return out, nil
	case "debcontrol":
		if strings.HasPrefix(in.Via, "deb:") {
			// the control file where it lives: ./control inside control.tar[.<ext>] of a format-2.0 package, read by deb.Load
			comp := strings.TrimPrefix(in.Via, "deb:")
			ct, e := debComp.Compress(comp, gen.BuildTar([]gen.TarEntry{{Name: "./", Dir: true}, {Name: "./md5sums", Body: []byte("d41d8cd98f00b204e9800998ecf8427e  usr/bin/hello\n")}, {Name: "./control", Body: []byte(text)}}))
			if e != nil {
				return nil, fmt.Errorf("harness: %v", e)
			}
			ar := gen.BuildAr([]gen.ArMember{{Name: "debian-binary", Data: []byte("2.0\n")}, {Name: "control.tar" + gen.DebCompExt(comp), Data: ct},
				{Name: "data.tar", Data: gen.BuildTar([]gen.TarEntry{{Name: "./usr/bin/hello", Body: []byte("#!/bin/sh\n")}})}})
			d, e := deb.Load(bytes.NewReader(ar), "/srv/pool/hello_2.10-1_amd64.deb")
			if e != nil {
				return nil, e
			}
			defer d.Close()
			c := d.Control
			return []reflect.Value{reflect.ValueOf(&c).Elem()}, nil
		}
		var c deb.Control
		if e := control.Unmarshal(&c, br); e != nil {
			return nil, e
		}
		return []reflect.Value{reflect.ValueOf(&c).Elem()}, nil
	case "embedded-dsc":
		// a user type that embeds the library's typed document anonymously
		var w WrappedDSC
		if e := control.Unmarshal(&w, br); e != nil {
			return nil, e
		}
		w.DSC.Filename = docPathOf(in)
		return []reflect.Value{reflect.ValueOf(&w.DSC).Elem()}, nil
	case "embedded-sources":
		var l []WrappedSource
		if e := control.Unmarshal(&l, br); e != nil {
			return nil, e
		}
		var out []reflect.Value
		for i := range l {
			out = append(out, reflect.ValueOf(&l[i].SourceIndex).Elem())
		}
		return out, nil
	}
	return nil, fmt.Errorf("unknown kind %s", in.Kind)
}

func want(f FSpec, c int) string {
	if c < 0 {
		return zeroOf(f.Kind)
	}
	return f.Vars[c].Want
}

func requiredMissing(in In, tables [][]FSpec) bool {
	if in.Kind != "debcontrol" {
		return false
	}
	for fi, f := range tables[0] {
		if (f.Key == "Package" || f.Key == "Version" || f.Key == "Architecture") && in.Choices[0][fi] < 0 {
			return true
		}
	}
	return false
}

func check(scen string, in In) []*mc.Violation {
	text, tables := render(in)
	var feats []string
	var paras []reflect.Value
	var err error
	if p, msg := mc.Guard(func() { paras, err = parse(in, text) }); p {
		return []*mc.Violation{mc.V(scen, "parser-returns", in, "no panic", "panic: "+msg, feats...)}
	}
	if requiredMissing(in, tables) {
		if err == nil {
			return []*mc.Violation{mc.V(scen, "required-field-missing-is-error", in, "error", "accepted", feats...)}
		}
		return nil
	}
	if err != nil {
		return []*mc.Violation{mc.V(scen, "document-decodes", in, "nil error", fmt.Sprintf("%v (text %q)", err, clip(text)), feats...)}
	}
	if len(paras) != len(tables) {
		return []*mc.Violation{mc.V(scen, "paragraph-count", in, fmt.Sprint(len(tables)), fmt.Sprintf("%d paragraphs (text %q)", len(paras), clip(text)), feats...)}
	}
	var vs []*mc.Violation
	for pi, t := range tables {
		for fi, f := range t {
			fv := paras[pi].FieldByName(f.Go)
			if !fv.IsValid() {
				vs = append(vs, mc.V(scen, "harness-field-exists", in, f.Go, "no such struct field", feats...))
				continue
			}
			got := Observe(fv, f.Kind)
			if w := want(f, in.Choices[pi][fi]); got != w {
				vs = append(vs, mc.V(scen, "field-equals-model", in, fmt.Sprintf("%s[%d].%s = %s", in.Kind, pi, f.Go, w), got, append([]string{"field:" + in.Kind + "." + f.Go}, feats...)...))
			}
		}
	}
	vs = append(vs, accessors(scen, in, tables, paras)...)
	// accessors compute from the fields, they do not rewrite them: every field observes the same value afterwards
	// (and the accessors that build lists are called a second time inside accessors())
	for pi, t := range tables {
		for fi, f := range t {
			fv := paras[pi].FieldByName(f.Go)
			if !fv.IsValid() {
				continue
			}
			if w, got := want(f, in.Choices[pi][fi]), Observe(fv, f.Kind); got != w {
				vs = append(vs, mc.V(scen, "accessor-agrees-with-model", in, fmt.Sprintf("%s[%d].%s = %s after the accessors were called", in.Kind, pi, f.Go, w), got, append([]string{"field:" + in.Kind + "." + f.Go}, feats...)...))
			}
		}
	}
	return vs
}

func clip(s string) string {
	if len(s) > 300 {
		return s[:300] + "…"
	}
	return s
}

func choiceOf(in In, tables [][]FSpec, pi int, key string) (FSpec, int) {
	for fi, f := range tables[pi] {
		if f.Key == key {
			return f, in.Choices[pi][fi]
		}
	}
	return FSpec{}, -1
}

func firstLine(f FSpec, c int) string {
	if c < 0 {
		return ""
	}
	return f.Vars[c].Lines[0]
}

// listOf parses the expected list elements back out of a variant's canonical Want (a harness string).
func wantList(f FSpec, c int) []string {
	if c < 0 {
		return nil
	}
	w := strings.TrimSuffix(strings.TrimPrefix(f.Vars[c].Want, "["), "]")
	var out []string
	for w != "" {
		var s string
		n, err := fmt.Sscanf(w, "%q", &s)
		if n != 1 || err != nil {
			break
		}
		out = append(out, s)
		w = strings.TrimPrefix(strings.TrimPrefix(w, fmt.Sprintf("%q", s)), " ")
	}
	return out
}

func accessors(scen string, in In, tables [][]FSpec, paras []reflect.Value) []*mc.Violation {
	docPath := docPathOf(in)
	var vs []*mc.Violation
	var feats []string
	bad := func(name, w, g string) {
		vs = append(vs, mc.V(scen, "accessor-agrees-with-model", in, name+" = "+w, g, append([]string{"accessor:" + name}, feats...)...))
	}
	switch in.Kind {
	case "dsc", "embedded-dsc":
		d := paras[0].Addr().Interface().(*control.DSC)
		mf, mc0 := choiceOf(in, tables, 0, "Maintainer")
		uf, uc := choiceOf(in, tables, 0, "Uploaders")
		wantM := append([]string{firstLine(mf, mc0)}, wantList(uf, uc)...)
		if g := d.Maintainers(); strings.Join(g, "|") != strings.Join(wantM, "|") {
			bad("dsc.Maintainers()", strings.Join(wantM, "|"), strings.Join(g, "|"))
		}
		if g := d.Maintainers(); strings.Join(g, "|") != strings.Join(wantM, "|") {
			bad("dsc.Maintainers() called twice", strings.Join(wantM, "|"), strings.Join(g, "|"))
		}
		af, ac := choiceOf(in, tables, 0, "Architecture")
		wantAll := ac >= 0 && strings.Contains(" "+af.Vars[ac].Lines[0]+" ", " all ")
		if g := d.HasArchAll(); g != wantAll {
			bad("dsc.HasArchAll()", fmt.Sprint(wantAll), fmt.Sprint(g))
		}
		ff, fc := choiceOf(in, tables, 0, "Files")
		var wantAbs []string
		wantDeb := ""
		if fc >= 0 {
			for _, l := range ff.Vars[fc].Lines[1:] {
				n := strings.Fields(l)[2]
				wantAbs = append(wantAbs, filepath.Join(filepath.Dir(docPath), n))
				if wantDeb == "" && strings.Contains(n, ".debian.") {
					wantDeb = n
				}
			}
		}
		var gotAbs []string
		abs := d.AbsFiles()
		for _, f := range abs {
			gotAbs = append(gotAbs, f.Filename)
		}
		if strings.Join(gotAbs, "|") != strings.Join(wantAbs, "|") {
			bad("dsc.AbsFiles()", strings.Join(wantAbs, "|"), strings.Join(gotAbs, "|"))
		}
		// apart from the joined path every entry is the listed tuple; and the accessor leaves Files as decoded
		for i := range abs {
			if i < len(d.Files) {
				w := d.Files[i]
				w.Filename = abs[i].Filename
				if abs[i] != w {
					bad("dsc.AbsFiles()[i]", fmt.Sprintf("%+v", w), fmt.Sprintf("%+v", abs[i]))
				}
			}
		}
		if g := Observe(paras[0].FieldByName("Files"), "md5"); g != want(ff, fc) {
			bad("dsc.Files after AbsFiles()", want(ff, fc), g)
		}
		var again []string
		for _, f := range d.AbsFiles() {
			again = append(again, f.Filename)
		}
		if strings.Join(again, "|") != strings.Join(wantAbs, "|") {
			bad("dsc.AbsFiles() called twice", strings.Join(wantAbs, "|"), strings.Join(again, "|"))
		}
		g, err := d.DebianSource()
		if (err == nil) != (wantDeb != "") || g != wantDeb {
			bad("dsc.DebianSource()", wantDeb, fmt.Sprintf("%q, %v", g, err))
		}
		if d.Filename != docPath {
			bad("dsc.Filename", docPath, d.Filename)
		}
	case "changes":
		c := paras[0].Addr().Interface().(*control.Changes)
		ff, fc := choiceOf(in, tables, 0, "Files")
		var wantAbs, gotAbs []string
		if fc >= 0 {
			for _, l := range ff.Vars[fc].Lines[1:] {
				wantAbs = append(wantAbs, filepath.Join(filepath.Dir(docPath), strings.Fields(l)[4]))
			}
		}
		abs := c.AbsFiles()
		for _, f := range abs {
			gotAbs = append(gotAbs, f.Filename)
		}
		if strings.Join(gotAbs, "|") != strings.Join(wantAbs, "|") {
			bad("changes.AbsFiles()", strings.Join(wantAbs, "|"), strings.Join(gotAbs, "|"))
		}
		for i := range abs {
			if i < len(c.Files) {
				w := c.Files[i]
				w.Filename = abs[i].Filename
				if abs[i] != w {
					bad("changes.AbsFiles()[i]", fmt.Sprintf("%+v", w), fmt.Sprintf("%+v", abs[i]))
				}
			}
		}
		if g := Observe(paras[0].FieldByName("Files"), "chfiles"); g != want(ff, fc) {
			bad("changes.Files after AbsFiles()", want(ff, fc), g)
		}
		if c.Filename != docPath {
			bad("changes.Filename", docPath, c.Filename)
		}
		if r, ok := getDSCResults.LoadAndDelete(c); ok {
			res := r.(getDSCResult)
			hasDsc := false
			if fc >= 0 {
				for _, l := range ff.Vars[fc].Lines[1:] {
					hasDsc = hasDsc || strings.HasSuffix(strings.Fields(l)[4], ".dsc")
				}
			}
			w := getDSCResult{err: "an error: the upload lists no .dsc"}
			if hasDsc {
				w = getDSCResult{filename: filepath.Join(filepath.Dir(docPath), h1.name), source: "hello", version: "2.10-1"}
			}
			if (res.err != "") != !hasDsc || (hasDsc && res != w) {
				bad("changes.GetDSC()", fmt.Sprintf("%+v", w), fmt.Sprintf("%+v", res))
			}
		}
	case "control":
		s := paras[0].Addr().Interface().(*control.SourceParagraph)
		mf, mc0 := choiceOf(in, tables, 0, "Maintainer")
		uf, uc := choiceOf(in, tables, 0, "Uploaders")
		wantM := append([]string{firstLine(mf, mc0)}, wantList(uf, uc)...)
		if g := s.Maintainers(); strings.Join(g, "|") != strings.Join(wantM, "|") {
			bad("control.Source.Maintainers()", strings.Join(wantM, "|"), strings.Join(g, "|"))
		}
		if g := s.Maintainers(); strings.Join(g, "|") != strings.Join(wantM, "|") {
			bad("control.Source.Maintainers() called twice", strings.Join(wantM, "|"), strings.Join(g, "|"))
		}
	case "packages":
		for pi := range paras {
			b := paras[pi].Addr().Interface().(*control.BinaryIndex)
			sf, sc := choiceOf(in, tables, pi, "Source")
			pf, pc := choiceOf(in, tables, pi, "Package")
			w := firstLine(pf, pc)
			if src := firstLine(sf, sc); src != "" {
				w = strings.Fields(src)[0]
			}
			if g := b.SourcePackage(); g != w {
				bad("packages.SourcePackage()", w, g)
			}
		}
		b := paras[0].Addr().Interface().(*control.BinaryIndex)
		get := map[string]func() dependency.Dependency{"Depends": b.GetDepends, "Pre-Depends": b.GetPreDepends, "Suggests": b.GetSuggests,
			"Breaks": b.GetBreaks, "Replaces": b.GetReplaces, "Conflicts": b.GetConflicts, "Built-Using": b.GetBuiltUsing}
		dv := depVarsOnce
		for ei, key := range indexDepKeys {
			w := ""
			if ei < len(in.Extra) && in.Extra[ei] >= 0 {
				w = dv[in.Extra[ei]].Want
			}
			d := get[key]()
			if g := gen.CanonDep(&d); g != w {
				bad("packages.Get("+key+")", w, g)
			}
		}
		// one variable holding the entries one after the other (a streaming loop, `e = list[i]`): every entry answers for itself
		var e control.BinaryIndex
		for pi := range paras {
			e = *paras[pi].Addr().Interface().(*control.BinaryIndex)
			getE := map[string]func() dependency.Dependency{"Depends": e.GetDepends, "Pre-Depends": e.GetPreDepends, "Suggests": e.GetSuggests,
				"Breaks": e.GetBreaks, "Replaces": e.GetReplaces, "Conflicts": e.GetConflicts, "Built-Using": e.GetBuiltUsing}
			for ei, key := range indexDepKeys {
				w := ""
				if pi == 0 && ei < len(in.Extra) && in.Extra[ei] >= 0 {
					w = dv[in.Extra[ei]].Want
				}
				for rep := 0; rep < 2; rep++ {
					d := getE[key]()
					if g := gen.CanonDep(&d); g != w {
						bad("packages.Get("+key+")", fmt.Sprintf("entry %d in a reused variable: %s", pi, w), g)
					}
				}
			}
		}
	case "sources":
		s := paras[0].Addr().Interface().(*control.SourceIndex)
		get := map[string]func() dependency.Dependency{"Build-Depends": s.GetBuildDepends, "Build-Depends-Arch": s.GetBuildDependsArch, "Build-Depends-Indep": s.GetBuildDependsIndep}
		dv := depVarsOnce
		for ei, key := range sourceDepKeys {
			w := ""
			if ei < len(in.Extra) && in.Extra[ei] >= 0 {
				w = dv[in.Extra[ei]].Want
			}
			d := get[key]()
			if g := gen.CanonDep(&d); g != w {
				bad("sources.Get("+key+")", w, g)
			}
		}
		var e control.SourceIndex
		for pi := range paras {
			e = *paras[pi].Addr().Interface().(*control.SourceIndex)
			getE := map[string]func() dependency.Dependency{"Build-Depends": e.GetBuildDepends, "Build-Depends-Arch": e.GetBuildDependsArch, "Build-Depends-Indep": e.GetBuildDependsIndep}
			for ei, key := range sourceDepKeys {
				w := ""
				if pi == 0 && ei < len(in.Extra) && in.Extra[ei] >= 0 {
					w = dv[in.Extra[ei]].Want
				}
				for rep := 0; rep < 2; rep++ {
					d := getE[key]()
					if g := gen.CanonDep(&d); g != w {
						bad("sources.Get("+key+")", fmt.Sprintf("entry %d in a reused variable: %s", pi, w), g)
					}
				}
			}
		}
	case "debcontrol":
		c := paras[0].Addr().Interface().(*deb.Control)
		sf, sc := choiceOf(in, tables, 0, "Source")
		pf, pc := choiceOf(in, tables, 0, "Package")
		w := firstLine(sf, sc)
		if w == "" {
			w = firstLine(pf, pc)
		}
		if g := c.SourceName(); g != w {
			bad("debcontrol.SourceName()", w, g)
		}
	}
	return vs
}

// explore enumerates all documents of a kind with at most k deviations from the full baseline.
// The same tree is walked by every shard; a shard evaluates the leaves whose index is congruent to it.
// buildIn makes the choices for one document of kind kd on the explorer's choice tree: paragraph count, per field the
// baseline variant / absent / another variant, extra dependency fields, and (env) the entry point, the caller's buffer
// size and the byte delivery. Every non-default choice is one deviation.
func buildIn(kd *kindDef, x *mc.X, env bool) (In, []string) {
	var devs []string
	dev := func(n int, label string) int {
		c := x.Deviate(n, label)
		if c != 0 {
			devs = append(devs, fmt.Sprintf("%s=%d", label, c))
		}
		return c
	}
	n := kd.nBase
	if kd.nMax > kd.nMin {
		// paragraph count: baseline first, then the others
		c := dev(kd.nMax-kd.nMin+1, "paragraphs")
		order := []int{kd.nBase}
		for v := kd.nMin; v <= kd.nMax; v++ {
			if v != kd.nBase {
				order = append(order, v)
			}
		}
		n = order[c]
	}
	tables := kd.tables(n)
	in := In{Kind: kd.name}
	for pi, t := range tables {
		row := make([]int, len(t))
		for fi, f := range t {
			// 0 = baseline variant, 1 = absent, 2.. = other variants
			c := dev(1+len(f.Vars), fmt.Sprintf("p%d.%s", pi, f.Key))
			switch {
			case c == 0:
				row[fi] = 0
			case c == 1:
				row[fi] = -1
			default:
				row[fi] = c - 1
			}
		}
		in.Choices = append(in.Choices, row)
	}
	for range extraKeys(kd.name) {
		c := dev(1+len(depVarsOnce), "extra-dep")
		in.Extra = append(in.Extra, c-1+0)
	}
	// extra: choice 0 = baseline = variant 0 present
	for i := range in.Extra {
		if in.Extra[i] == -1 {
			in.Extra[i] = 0
		} else if in.Extra[i] == 0 {
			in.Extra[i] = -1
		}
	}
	if !env {
		in.Devs = devs
		return in, devs
	}
	if kd.name == "dsc" || kd.name == "changes" || kd.name == "control" {
		if c := dev(1+len(fileVias), "entry"); c > 0 {
			in.Via = fileVias[c-1]
		}
	}
	if kd.name == "debcontrol" {
		if c := dev(1+len(debVias), "entry"); c > 0 {
			in.Via = debVias[c-1]
		}
	}
	switch dev(3, "bufio-size") {
	case 1:
		in.BufSize = 16
	case 2:
		in.BufSize = 65536
	}
	in.Peek = dev(3, "caller-peeked")
	if d := dev(6, "delivery"); d < 3 {
		in.Delivery = d
	} else {
		in.Delivery = 2 - d // -1, -2, -3: final bytes together with io.EOF (whole / chunked), (0, nil) answers
	}
	in.Devs = devs
	return in, devs
}

func explore(scen string, kd *kindDef, k int, shard, shards int, st *mc.Stats) {
	leaf := -1
	var owned int64
	_, div := mc.Explore(k, nil, func(x *mc.X) {
		in, devs := buildIn(kd, x, true)
		leaf++
		if leaf%shards != shard {
			return
		}
		owned++
		st.Transitions += int64(len(x.Choices()))
		st.Evals++
		st.Traces++
		if len(devs) > 0 {
			st.Nontrivial++
		}
		vs := check(scen, in)
		if len(vs) == 0 {
			st.Class("equals-model")
		}
		for _, v := range vs {
			st.Violate(v)
			st.Class(v.Clause)
		}
		if st.WantSample() && len(devs) == k {
			t, _ := render(in)
			st.Sample(map[string]interface{}{"kind": kd.name, "deviations": devs, "text": clip(t)})
		}
	})
	st.States += owned
	if div != "" {
		st.Violate(mc.V(scen, "harness-replay-divergence", In{Kind: kd.name}, "deterministic", div))
	}
}

// uncovered lists struct fields of the typed documents that no field table covers (so a new field is never silently unchecked).
func uncovered() []string {
	var out []string
	chk := func(kind string, t reflect.Type, specs []FSpec) {
		covered := map[string]bool{"Paragraph": true, "Filename": kind == "dsc" || kind == "changes"}
		for _, s := range specs {
			covered[s.Go] = true
		}
		for i := 0; i < t.NumField(); i++ {
			if !covered[t.Field(i).Name] {
				out = append(out, kind+"."+t.Field(i).Name)
			}
		}
	}
	chk("dsc", reflect.TypeOf(control.DSC{}), dscFields())
	chk("changes", reflect.TypeOf(control.Changes{}), changesFields())
	chk("control-source", reflect.TypeOf(control.SourceParagraph{}), sourceParaFields())
	chk("control-binary", reflect.TypeOf(control.BinaryParagraph{}), binaryParaFields("x"))
	chk("packages", reflect.TypeOf(control.BinaryIndex{}), packagesFields("x"))
	chk("sources", reflect.TypeOf(control.SourceIndex{}), sourcesFields("x"))
	chk("debcontrol", reflect.TypeOf(deb.Control{}), debControlFields())
	return out
}

func Run(r *mc.Run) {
	r.Rule = "six document kinds (.dsc, .changes, debian/control, Packages, Sources, deb control), each rendered in the Debian layout from a per-field model; full baseline (every field present) and every document with <= k deviations (quick 2, thorough 3) among: field absent, each alternative rendering/value of a field (list lengths, folded lists, several uploaders, architecture sets, dependency shapes, file counts), paragraph count, size of the caller's bufio.Reader (default/16/64K), byte delivery; non-trivial = at least one deviation; distinct by construction"
	r.Assume = []string{"expected dependency structures come from the independent recogniser (gen.Recognise), versions and architectures from the reference denotations of C03/C06", "Description and other multi-line scalars are compared with the reader's logical-line value (C07 reference)"}
	r.Extra["struct_fields_not_covered_by_the_model"] = uncovered()
	r.Extra["entry_points"] = "Parse<Kind>(reader, path) by default; for .dsc, .changes and debian/control one deviation selects Parse<Kind>File with the document on disk and the path given absolute / as a bare name / as ./incoming/<name> / as ../<name> (working directory changed under a lock)"
	defer func() {
		if fileRootDir != "" {
			os.RemoveAll(fileRootDir)
		}
	}()
	addBestScenario(r)
	addKnobScenario(r)
	// the same entry points called at the same time on independent inputs: every schedule of small thread programs (instrumented build)
	sched.Explore(r, "concurrent-calls", ConcurrentPrograms())

	k := r.Pick(2, 3)
	for i := range kinds {
		kd := &kinds[i]
		name := "kind-" + kd.name
		kk := k
		if kd.name == "control" && r.Quick() {
			kk = 2
		}
		r.Scenario(name, map[string]interface{}{"deviation_bound": kk, "paragraphs": fmt.Sprintf("%d..%d", kd.nMin, kd.nMax)}, 16, func(sh int, st *mc.Stats) bool {
			explore(name, kd, kk, sh, 16, st)
			return !r.Expired()
		})
	}
}

func Replay(scenario string, raw json.RawMessage) []*mc.Violation {
	if scenario == "concurrent-calls" {
		return sched.Replay(scenario, ConcurrentPrograms(), raw)
	}
	if scenario == "deb-control-after-decoder-settings" {
		var k KnobIn
		if mc.UnmarshalInput(raw, &k) == nil && kindByName(k.Doc.Kind) != nil {
			return checkKnob(scenario, k)
		}
		return nil
	}
	if scenario == "best-checksums-accessor-histories" {
		var in BestIn
		if mc.UnmarshalInput(raw, &in) == nil {
			return checkBest(scenario, in)
		}
		return nil
	}
	var in In
	if mc.UnmarshalInput(raw, &in) != nil || kindByName(in.Kind) == nil {
		return nil
	}
	vs := check(scenario, in)
	if in.Via != "" && fileRootDir != "" {
		os.RemoveAll(fileRootDir)
		fileRootOnce = sync.Once{}
		fileRootDir = ""
	}
	return vs
}
