package c10

// The library's own typed documents as struct values for C09: every document the C10 model renders (baseline and every
// document with <= k field deviations) is decoded by the kind's typed parser; each decoded paragraph struct is then
// marshalled and the text unmarshalled into a fresh struct of the same type, which must show the same value in every
// modelled field (observed through the same canonical observation C10 uses). Registered on C09's run.

import (
	"bytes"
	"encoding/json"
	"fmt"
	"reflect"
	"strings"

	"pault.ag/go/debian/control"

	"verifharness/mc"
)

const RemarshalScenario = "library-typed-documents"

// decodeOnly lists the library's member types that implement Unmarshallable but not Marshallable on the pinned tree.
var decodeOnly = map[reflect.Type]bool{reflect.TypeOf(control.FileListChangesFileHash{}): true}

func checkRemarshal(scen string, in In) []*mc.Violation {
	text, tables := render(in)
	var paras []reflect.Value
	var err error
	if p, _ := mc.Guard(func() { paras, err = parse(in, text) }); p || err != nil || len(paras) != len(tables) {
		return nil // decoding the rendered document is C10's business
	}
	var vs []*mc.Violation
	for pi, t := range tables {
		orig := paras[pi]
		// decode-only member types are not "supported field kinds" for marshalling: the library gives them no
		// MarshalControl (Marshal answers with an error). Such a member is emptied first and left out of the comparison.
		skip := map[string]bool{}
		for i := 0; i < orig.NumField(); i++ {
			ft := orig.Type().Field(i).Type
			if ft.Kind() == reflect.Slice {
				ft = ft.Elem()
			}
			if decodeOnly[ft] {
				orig.Field(i).Set(reflect.Zero(orig.Type().Field(i).Type))
				skip[orig.Type().Field(i).Name] = true
			}
		}
		var buf bytes.Buffer
		if p, msg := mc.Guard(func() { err = control.Marshal(&buf, orig.Addr().Interface()) }); p {
			return []*mc.Violation{mc.V(scen, "marshal-never-panics", in, "no panic", fmt.Sprintf("%s paragraph %d: panic: %s", in.Kind, pi, msg))}
		}
		if err != nil {
			vs = append(vs, mc.V(scen, "marshal-succeeds", in, "nil error", fmt.Sprintf("%s paragraph %d (%s): %v", in.Kind, pi, orig.Type(), err)))
			continue
		}
		back := reflect.New(orig.Type())
		if p, msg := mc.Guard(func() { err = control.Unmarshal(back.Interface(), strings.NewReader(buf.String())) }); p {
			return []*mc.Violation{mc.V(scen, "unmarshal-returns", in, "no panic", fmt.Sprintf("%s paragraph %d: panic: %s", in.Kind, pi, msg))}
		}
		if err != nil {
			vs = append(vs, mc.V(scen, "marshalled-text-decodes", in, "nil error", fmt.Sprintf("%s paragraph %d: %v (text %q)", in.Kind, pi, err, clip(buf.String()))))
			continue
		}
		for _, f := range t {
			a, b := orig.FieldByName(f.Go), back.Elem().FieldByName(f.Go)
			if !a.IsValid() || !b.IsValid() || skip[f.Go] {
				continue
			}
			if wa, wb := Observe(a, f.Kind), Observe(b, f.Kind); wa != wb {
				vs = append(vs, mc.V(scen, "roundtrip-field-equal", in, fmt.Sprintf("%s[%d].%s = %s", in.Kind, pi, f.Go, wa), fmt.Sprintf("%s (text %q)", wb, clip(buf.String())), "field:"+in.Kind+"."+f.Go))
			}
		}
	}
	return vs
}

// AddRemarshalScenario registers the scenario on r (C09's run).
func AddRemarshalScenario(r *mc.Run, k int) {
	r.Scenario(RemarshalScenario, map[string]interface{}{"kinds": "dsc changes control packages sources debcontrol", "documents": "the C10 model's baseline per kind and every document with <= k field deviations (absent, alternative values and renderings, paragraph count)", "deviation_bound": k,
		"oracle": "Marshal(decoded paragraph struct) then Unmarshal into a fresh struct of the same type: every modelled field observes the same value"}, len(kinds), func(i int, st *mc.Stats) bool {
		kd := &kinds[i]
		if strings.HasPrefix(kd.name, "embedded-") {
			return true
		}
		seen := map[string]bool{}
		_, div := mc.Explore(k, nil, func(x *mc.X) {
			in, devs := buildIn(kd, x, false)
			text, _ := render(in)
			if seen[text] {
				return
			}
			seen[text] = true
			st.Evals++
			st.Traces++
			if len(devs) > 0 {
				st.Nontrivial++
			}
			vs := checkRemarshal(RemarshalScenario, in)
			if len(vs) == 0 {
				st.Class(kd.name + ":roundtrips")
			}
			for _, v := range vs {
				st.Violate(v)
				st.Class(kd.name + ":" + v.Clause)
			}
		})
		if div != "" {
			st.Violate(mc.V(RemarshalScenario, "harness-replay-divergence", In{Kind: kd.name}, "deterministic", div))
		}
		return !r.Expired()
	})
}

func ReplayRemarshal(raw json.RawMessage) []*mc.Violation {
	var in In
	if mc.UnmarshalInput(raw, &in) != nil || kindByName(in.Kind) == nil {
		return nil
	}
	return checkRemarshal(RemarshalScenario, in)
}
