package c10

import (
	"fmt"
	"reflect"
	"strings"

	"pault.ag/go/debian/control"
	"pault.ag/go/debian/dependency"
	"pault.ag/go/debian/version"

	"verifharness/gen"
)

// Variant is one way a field can be written in a document: its lines (first line, then continuation lines
// WITHOUT the leading blank) and the canonical value the typed parser must expose for it.
type Variant struct {
	Lines []string
	Want  string
}

// FSpec describes one struct field of a typed document.
type FSpec struct {
	Key  string // Debian field name
	Go   string // struct field name
	Kind string // scalar int bool version arch archlist dep list md5 sha1 sha256 chfiles
	Vars []Variant
}

// ---- canonical observation of a decoded struct field ----

func q(s string) string { return fmt.Sprintf("%q", s) }

func canonVersion(v version.Version) string {
	return fmt.Sprintf("%d|%s|%s", v.Epoch, v.Version, v.Revision)
}
func canonArch(a dependency.Arch) string { return a.ABI + "/" + a.OS + "/" + a.CPU }
func canonFH(f control.FileHash) string {
	return fmt.Sprintf("(%s %s %d %s)", f.Algorithm, f.Hash, f.Size, f.Filename)
}

// Observe renders a decoded field canonically according to its kind.
func Observe(f reflect.Value, kind string) string {
	switch kind {
	case "scalar":
		return q(f.String())
	case "int":
		return fmt.Sprint(f.Int())
	case "bool":
		return fmt.Sprint(f.Bool())
	case "version":
		return canonVersion(f.Interface().(version.Version))
	case "arch":
		return canonArch(f.Interface().(dependency.Arch))
	case "archlist":
		var out []string
		for _, a := range f.Interface().([]dependency.Arch) {
			out = append(out, canonArch(a))
		}
		return "[" + strings.Join(out, " ") + "]"
	case "dep":
		d := f.Interface().(dependency.Dependency)
		return gen.CanonDep(&d)
	case "list":
		var out []string
		for _, s := range f.Interface().([]string) {
			out = append(out, q(s))
		}
		return "[" + strings.Join(out, " ") + "]"
	case "md5", "sha1", "sha256":
		var out []string
		for i := 0; i < f.Len(); i++ {
			out = append(out, canonFH(f.Index(i).FieldByName("FileHash").Interface().(control.FileHash)))
		}
		return "[" + strings.Join(out, " ") + "]"
	case "chfiles":
		var out []string
		for _, c := range f.Interface().([]control.FileListChangesFileHash) {
			out = append(out, fmt.Sprintf("(%s %s %d %s %s %s)", c.Algorithm, c.Hash, c.Size, c.Filename, c.Component, c.Priority))
		}
		return "[" + strings.Join(out, " ") + "]"
	}
	panic("kind " + kind)
}

// zero canonical value of a kind (field absent)
func zeroOf(kind string) string {
	switch kind {
	case "scalar":
		return q("")
	case "int":
		return "0"
	case "bool":
		return "false"
	case "version":
		return "0||"
	case "arch":
		return "//"
	case "dep":
		return ""
	default:
		return "[]"
	}
}

// ---- variant constructors (expected values come from the harness's own reference functions) ----

func scalar(s string) Variant { return Variant{[]string{s}, q(s)} }

// multiline scalar: first line + continuation texts; the value is the reader's logical-line value (C07's reference)
func multi(first string, cont ...string) Variant {
	f := gen.DField{Name: "x", First: first}
	for _, c := range cont {
		f.Cont = append(f.Cont, gen.DLine{Marker: ' ', Text: c})
	}
	return Variant{append([]string{first}, cont...), q(f.RefValue())}
}

// upl: n uploaders on one line (list lengths at which append leaves spare capacity behind)
func upl(n int) Variant {
	var names []string
	for i := 0; i < n; i++ {
		names = append(names, fmt.Sprintf("Uploader %d <u%d@example.org>", i, i))
	}
	return list(names, strings.Join(names, ", "))
}

// bigDescription: a long description of n continuation lines (a control file larger than one read of a decompressor gives)
func bigDescription(n int) Variant {
	lines := make([]string, n)
	for i := range lines {
		lines[i] = fmt.Sprintf("line %04d of a very long description", i)
		if i%50 == 49 {
			lines[i] = "."
		}
	}
	return multi("a package with a long description", lines...)
}

func intv(n int) Variant { return Variant{[]string{fmt.Sprint(n)}, fmt.Sprint(n)} }

func ver(s string) Variant {
	var r gen.RefVersion
	t := s
	if i := strings.Index(t, ":"); i >= 0 {
		for _, c := range t[:i] {
			r.Epoch = r.Epoch*10 + uint64(c-'0')
		}
		t = t[i+1:]
	}
	if i := strings.LastIndex(t, "-"); i >= 0 {
		r.Revision = t[i+1:]
		t = t[:i]
	}
	r.Upstream = t
	return Variant{[]string{s}, fmt.Sprintf("%d|%s|%s", r.Epoch, r.Upstream, r.Revision)}
}

func refArch(n string) string {
	a := gen.DenoteArch(n)
	if a.All {
		return "all/all/all"
	}
	return a.ABI + "/" + a.OS + "/" + a.CPU
}

func arch(n string) Variant { return Variant{[]string{n}, refArch(n)} }

func archs(names ...string) Variant {
	var out []string
	for _, n := range names {
		out = append(out, refArch(n))
	}
	return Variant{[]string{strings.Join(names, " ")}, "[" + strings.Join(out, " ") + "]"}
}

// dep: the field's lines; expected = canonical form of what the independent recogniser makes of the unfolded text
func dep(lines ...string) Variant {
	ast, reason := gen.Recognise(strings.Join(lines, "\n"))
	if reason != "" {
		panic("harness dependency variant not well-formed: " + reason + ": " + strings.Join(lines, "|"))
	}
	return Variant{lines, ast.Canon()}
}

// list: expected elements, then the lines as written
func list(want []string, lines ...string) Variant {
	var out []string
	for _, s := range want {
		out = append(out, q(s))
	}
	return Variant{lines, "[" + strings.Join(out, " ") + "]"}
}

type fileEntry struct {
	hash string
	size int
	name string
	comp string
	prio string
}

func files(alg string, es ...fileEntry) Variant {
	lines := []string{""}
	var out []string
	for _, e := range es {
		if alg == "changes" {
			lines = append(lines, fmt.Sprintf("%s %d %s %s %s", e.hash, e.size, e.comp, e.prio, e.name))
			out = append(out, fmt.Sprintf("(md5 %s %d %s %s %s)", e.hash, e.size, e.name, e.comp, e.prio))
		} else {
			lines = append(lines, fmt.Sprintf("%s %d %s", e.hash, e.size, e.name))
			out = append(out, fmt.Sprintf("(%s %s %d %s)", alg, e.hash, e.size, e.name))
		}
	}
	return Variant{lines, "[" + strings.Join(out, " ") + "]"}
}

// renderField writes one field in deb822 syntax.
func renderField(key string, v Variant) string {
	var sb strings.Builder
	if v.Lines[0] == "" {
		sb.WriteString(key + ":\n")
	} else {
		sb.WriteString(key + ": " + v.Lines[0] + "\n")
	}
	for _, l := range v.Lines[1:] {
		sb.WriteString(" " + l + "\n")
	}
	return sb.String()
}

// ---- field tables ----

var (
	h1   = fileEntry{"d41d8cd98f00b204e9800998ecf8427e", 1131, "hello_2.10-1.dsc", "devel", "optional"}
	h2   = fileEntry{"0cc175b9c0f1b6a831c399e269772661", 725946, "hello_2.10.orig.tar.gz", "devel", "optional"}
	h3   = fileEntry{"92eb5ffee6ae2fec3ad71c777531578f", 6132, "hello_2.10-1.debian.tar.xz", "devel", "optional"}
	hBig = fileEntry{"0123456789abcdef0123456789abcdef", 6442450944, "hello_2.10.orig-data.tar.xz", "devel", "optional"} // 6 GiB
	h4G  = fileEntry{"fedcba9876543210fedcba9876543210", 4294967296, "hello_2.10.orig-big.tar.xz", "devel", "optional"}  // exactly 2^32
	hNF  = fileEntry{"0cc175b9c0f1b6a831c399e269772661", 725946, "hello_2.10.orig.tar.gz", "non-free/utils", "optional"} // area-qualified sections
	hCT  = fileEntry{"92eb5ffee6ae2fec3ad71c777531578f", 6132, "hello_2.10-1.debian.tar.xz", "contrib/net", "extra"}
	hUP  = fileEntry{"0CC175B9C0F1B6A831C399E269772661", 725946, "hello_2.10.orig.tar.gz", "devel", "optional"} // upper-case hex, as some tools write it
	tUP  = fileEntry{hash: "CA978112CA1BBDCAFAC231B39A23DC4DA786EFF8147C4E72B9807785AFEE48BB", size: 725946, name: "hello_2.10.orig.tar.gz"}
	s1   = fileEntry{hash: "da39a3ee5e6b4b0d3255bfef95601890afd80709", size: 1131, name: "hello_2.10-1.dsc"}
	s2   = fileEntry{hash: "86f7e437faa5a7fce15d1ddcb9eaeaea377667b8", size: 725946, name: "hello_2.10.orig.tar.gz"}
	t1   = fileEntry{hash: "e3b0c44298fc1c149afbf4c8996fb92427ae41e4649b934ca495991b7852b855", size: 1131, name: "hello_2.10-1.dsc"}
	t2   = fileEntry{hash: "ca978112ca1bbdcafac231b39a23dc4da786eff8147c4e72b9807785afee48bb", size: 725946, name: "hello_2.10.orig.tar.gz"}
	t3   = fileEntry{hash: "3e23e8160039594a33894f6564e1b1348bbd7a0088d42c4acb73eeaed59c009d", size: 6132, name: "hello_2.10-1.debian.tar.xz"}
)

func depVariants() []Variant {
	return []Variant{
		dep("debhelper (>= 9), libfoo-dev"),
		dep("a | b (<< 2.0~rc1) [amd64 linux-any], ${misc:Depends}"),
		dep("debhelper (>= 9),", "libfoo-dev [!amd64 !i386] <!nocheck>,", "c:any"),
		dep("single"),
		// version numbers that are substitution variables, as debian/control of every library package has them
		dep("libfoo1 (= ${binary:Version}), libbar-dev (>= ${source:Version}), ${shlibs:Depends}"),
	}
}

func dscFields() []FSpec {
	return []FSpec{
		{"Format", "Format", "scalar", []Variant{scalar("3.0 (quilt)"), scalar("1.0")}},
		{"Source", "Source", "scalar", []Variant{scalar("hello")}},
		{"Binary", "Binaries", "list", []Variant{list([]string{"hello", "hello-doc", "libhello1"}, "hello, hello-doc, libhello1"), list([]string{"hello"}, "hello"),
			list([]string{"hello", "hello-doc", "libhello1"}, "hello, hello-doc,", "libhello1"), list([]string{"hello", "hello-doc"}, "hello,", "hello-doc"),
			// blanks before the separator, and the comma-first fold
			list([]string{"hello", "hello-doc", "libhello1"}, "hello , hello-doc ,libhello1"), list([]string{"hello", "hello-doc", "libhello1"}, "hello", ", hello-doc", ", libhello1")}},
		{"Architecture", "Architectures", "archlist", []Variant{archs("any", "all"), archs("any"), archs("all"), archs("linux-any"), archs("amd64", "i386"), archs("kfreebsd-amd64", "hurd-i386"), archs("amd64", "i386", "any"), archs("linux-any", "kfreebsd-any", "all")}},
		{"Version", "Version", "version", []Variant{ver("2.10-1"), ver("1:2.10~rc1-1+b2"), ver("2.10")}},
		{"Origin", "Origin", "scalar", []Variant{scalar("debian")}},
		{"Maintainer", "Maintainer", "scalar", []Variant{scalar("Santiago Vila <sanvila@debian.org>")}},
		{"Uploaders", "Uploaders", "list", []Variant{list([]string{"Jane Roe <jane@example.org>", "John Doe <jd@example.org>"}, "Jane Roe <jane@example.org>, John Doe <jd@example.org>"),
			list([]string{"Jane Roe <jane@example.org>"}, "Jane Roe <jane@example.org>"),
			list([]string{"Jane Roe <jane@example.org>", "John Doe <jd@example.org>", "A B <c@d>"}, "Jane Roe <jane@example.org>,", "John Doe <jd@example.org>,", "A B <c@d>"),
			list([]string{"Jane Roe <jane@example.org>", "Santiago Vila <sanvila@debian.org>", "Jane Roe <jane@example.org>"}, "Jane Roe <jane@example.org>, Santiago Vila <sanvila@debian.org>, Jane Roe <jane@example.org>"),
			upl(5), upl(9), upl(17),
			list([]string{"Jane Roe <jane@example.org>", "John Doe <jd@example.org>"}, "Jane Roe <jane@example.org> , John Doe <jd@example.org>"),
			list([]string{"Jane Roe <jane@example.org>", "John Doe <jd@example.org>", "A B <c@d>"}, "Jane Roe <jane@example.org>", ", John Doe <jd@example.org>", "\t, A B <c@d>"),
			// names that begin or end with a character whose code point has a blank, newline or carriage return as its low byte
			list([]string{"\u0120or\u0121 Borg <g@example.org>", "\u010aensu Tabone <c@example.org>", "Ren\u00e9 \u010d", "Dagger \u2020"}, "\u0120or\u0121 Borg <g@example.org>, \u010aensu Tabone <c@example.org>,", "Ren\u00e9 \u010d, Dagger \u2020")}},
		{"Homepage", "Homepage", "scalar", []Variant{scalar("https://www.gnu.org/software/hello/")}},
		{"Standards-Version", "StandardsVersion", "scalar", []Variant{scalar("4.6.2")}},
		{"Build-Depends", "BuildDepends", "dep", depVariants()},
		{"Build-Depends-Arch", "BuildDependsArch", "dep", depVariants()},
		{"Build-Depends-Indep", "BuildDependsIndep", "dep", depVariants()},
		{"Checksums-Sha1", "ChecksumsSha1", "sha1", []Variant{files("sha1", s1, s2), files("sha1", s1), files("sha1", s1, hBig)}},
		{"Checksums-Sha256", "ChecksumsSha256", "sha256", []Variant{files("sha256", t1, t2, t3), files("sha256", t1), files("sha256", t1, h4G, hBig), files("sha256", t1, tUP)}},
		{"Files", "Files", "md5", []Variant{files("md5", h1, h2, h3), files("md5", h2), files("md5", h2, h1), files("md5", h1, hBig, h4G), files("md5", h1, hUP)}},
	}
}

func changesFields() []FSpec {
	return []FSpec{
		{"Format", "Format", "scalar", []Variant{scalar("1.8")}},
		{"Source", "Source", "scalar", []Variant{scalar("hello")}},
		{"Binary", "Binaries", "list", []Variant{list([]string{"hello", "hello-doc", "libhello1"}, "hello hello-doc libhello1"), list([]string{"hello"}, "hello"),
			list([]string{"hello", "hello-doc", "libhello1"}, "hello hello-doc", "libhello1")}},
		{"Architecture", "Architectures", "archlist", []Variant{archs("source", "amd64", "all"), archs("source"), archs("amd64")}},
		{"Version", "Version", "version", []Variant{ver("2.10-1"), ver("1:2.10~rc1-1+b2")}},
		{"Origin", "Origin", "scalar", []Variant{scalar("debian")}},
		{"Distribution", "Distribution", "scalar", []Variant{scalar("unstable"), scalar("bookworm-backports")}},
		{"Urgency", "Urgency", "scalar", []Variant{scalar("medium")}},
		{"Maintainer", "Maintainer", "scalar", []Variant{scalar("Santiago Vila <sanvila@debian.org>")}},
		{"Changed-By", "ChangedBy", "scalar", []Variant{scalar("Jane Roe <jane@example.org>")}},
		{"Closes", "Closes", "list", []Variant{list([]string{"123456", "654321"}, "123456 654321"), list([]string{"123456"}, "123456")}},
		{"Changes", "Changes", "scalar", []Variant{multi("", "hello (2.10-1) unstable; urgency=medium", ".", "  * New upstream release.", "  * Closes: #123456"),
			multi("", "hello (2.10-1) unstable; urgency=medium", ".", "  * Fix the build with the new toolchain (Closes:", "    #1012345).", "  #include <hello.h> no longer needed", "  .", "\t* tab-indented item", " .", "  * last")}},
		{"Checksums-Sha1", "ChecksumsSha1", "sha1", []Variant{files("sha1", s1, s2), files("sha1", s1)}},
		{"Checksums-Sha256", "ChecksumsSha256", "sha256", []Variant{files("sha256", t1, t2), files("sha256", t1)}},
		{"Files", "Files", "chfiles", []Variant{files("changes", h1, h2, h3), files("changes", h1), files("changes", h1, hBig, h4G), files("changes", h2, h3), files("changes", hNF, hCT, h1)}},
	}
}

func sourceParaFields() []FSpec {
	return []FSpec{
		{"Source", "Source", "scalar", []Variant{scalar("hello")}},
		{"Section", "Section", "scalar", []Variant{scalar("devel")}},
		{"Priority", "Priority", "scalar", []Variant{scalar("optional")}},
		{"Maintainer", "Maintainer", "scalar", []Variant{scalar("Santiago Vila <sanvila@debian.org>")}},
		{"Uploaders", "Uploaders", "list", []Variant{list([]string{"Jane Roe <jane@example.org>", "John Doe <jd@example.org>"}, "Jane Roe <jane@example.org>, John Doe <jd@example.org>"),
			list([]string{"Jane Roe <jane@example.org>"}, "Jane Roe <jane@example.org>"),
			list([]string{"Jane Roe <jane@example.org>", "John Doe <jd@example.org>"}, "Jane Roe <jane@example.org>,", "John Doe <jd@example.org>"),
			list([]string{"Santiago Vila <sanvila@debian.org>", "Jane Roe <jane@example.org>", "Santiago Vila <sanvila@debian.org>"}, "Santiago Vila <sanvila@debian.org>, Jane Roe <jane@example.org>, Santiago Vila <sanvila@debian.org>"),
			list([]string{"\u0120or\u0121 Borg <g@example.org>", "\u010aensu Tabone <c@example.org>", "Ren\u00e9 \u010d", "Dagger \u2020"}, "\u0120or\u0121 Borg <g@example.org>, \u010aensu Tabone <c@example.org>,", "Ren\u00e9 \u010d, Dagger \u2020")}},
		{"Build-Depends", "BuildDepends", "dep", depVariants()},
		{"Build-Depends-Indep", "BuildDependsIndep", "dep", depVariants()},
		{"Build-Conflicts", "BuildConflicts", "dep", depVariants()},
		{"Build-Conflicts-Indep", "BuildConflictsIndep", "dep", depVariants()},
		{"Description", "Description", "scalar", []Variant{scalar("source description")}},
	}
}

func binaryParaFields(name string) []FSpec {
	return []FSpec{
		{"Package", "Package", "scalar", []Variant{scalar(name)}},
		{"Architecture", "Architectures", "archlist", []Variant{archs("any"), archs("all"), archs("amd64", "sparc", "kfreebsd-any")}},
		{"Section", "Section", "scalar", []Variant{scalar("libs")}},
		{"Priority", "Priority", "scalar", []Variant{scalar("optional")}},
		{"Essential", "Essential", "bool", []Variant{{[]string{"yes"}, "true"}, {[]string{"no"}, "false"}}},
		{"Depends", "Depends", "dep", depVariants()},
		{"Recommends", "Recommends", "dep", depVariants()},
		{"Suggests", "Suggests", "dep", depVariants()},
		{"Enhances", "Enhances", "dep", depVariants()},
		{"Pre-Depends", "PreDepends", "dep", depVariants()},
		{"Breaks", "Breaks", "dep", depVariants()},
		{"Conflicts", "Conflicts", "dep", depVariants()},
		{"Replaces", "Replaces", "dep", depVariants()},
		{"Built-Using", "BuiltUsing", "dep", []Variant{dep("gcc-12 (= 12.2.0-14)")}},
		{"Conffiles", "Conffiles", "md5", []Variant{
			{[]string{"", "/etc/hello.conf d41d8cd98f00b204e9800998ecf8427e", "/etc/hello.d/x 0cc175b9c0f1b6a831c399e269772661"}, "[(md5 d41d8cd98f00b204e9800998ecf8427e 0 /etc/hello.conf) (md5 0cc175b9c0f1b6a831c399e269772661 0 /etc/hello.d/x)]"},
			{[]string{"", "/etc/hello.conf d41d8cd98f00b204e9800998ecf8427e"}, "[(md5 d41d8cd98f00b204e9800998ecf8427e 0 /etc/hello.conf)]"}}},
		{"Description", "Description", "scalar", []Variant{multi("XDG compliant autostarting app", "The app was designed to have little overhead.", ".", "Second paragraph."), scalar("short only"),
			multi("editor scripts", "An ed-style example:", "  1,$p", "  .", "  #include <hello.h>", "  w", ".", "# not a comment: it is indented", "\tq")}},
	}
}

func packagesFields(name string) []FSpec {
	return []FSpec{
		{"Package", "Package", "scalar", []Variant{scalar(name)}},
		{"Source", "Source", "scalar", []Variant{scalar("hello-src"), scalar("hello-src (2.10-1)"), scalar("hello-src (1:2.10-1+b2)")}},
		{"Version", "Version", "version", []Variant{ver("2.10-1+b1"), ver("1:2.10-1")}},
		{"Installed-Size", "InstalledSize", "int", []Variant{intv(280), intv(0)}},
		{"Maintainer", "Maintainer", "scalar", []Variant{scalar("Santiago Vila <sanvila@debian.org>")}},
		{"Architecture", "Architecture", "arch", []Variant{arch("amd64"), arch("all"), arch("kfreebsd-amd64")}},
		{"Multi-Arch", "MultiArch", "scalar", []Variant{scalar("foreign")}},
		{"Description", "Description", "scalar", []Variant{scalar("example package based on GNU hello")}},
		{"Homepage", "Homepage", "scalar", []Variant{scalar("https://www.gnu.org/software/hello/")}},
		{"Description-md5", "DescriptionMD5", "scalar", []Variant{scalar("1a2b3c4d5e6f")}},
		{"Tag", "Tags", "list", []Variant{list([]string{"devel::examples", "interface::commandline", "role::program"}, "devel::examples, interface::commandline, role::program"),
			list([]string{"role::program"}, "role::program"),
			list([]string{"devel::examples", "interface::commandline", "role::program"}, "devel::examples, interface::commandline,", "role::program")}},
		{"Section", "Section", "scalar", []Variant{scalar("devel")}},
		{"Priority", "Priority", "scalar", []Variant{scalar("optional")}},
		{"Filename", "Filename", "scalar", []Variant{scalar("pool/main/h/hello/hello_2.10-1+b1_amd64.deb")}},
		{"Size", "Size", "int", []Variant{intv(56132)}},
		{"MD5sum", "MD5sum", "scalar", []Variant{scalar("d41d8cd98f00b204e9800998ecf8427e")}},
		{"SHA1", "SHA1", "scalar", []Variant{scalar("da39a3ee5e6b4b0d3255bfef95601890afd80709")}},
		{"SHA256", "SHA256", "scalar", []Variant{scalar("e3b0c44298fc1c149afbf4c8996fb92427ae41e4649b934ca495991b7852b855")}},
		{"Build-Ids", "DebugBuildIds", "list", []Variant{list([]string{"aa11", "bb22"}, "aa11 bb22"), list([]string{"aa11"}, "aa11")}},
	}
}

// extra (non-struct) dependency fields of index entries, read through accessors
var indexDepKeys = []string{"Depends", "Pre-Depends", "Suggests", "Breaks", "Replaces", "Conflicts", "Built-Using"}
var sourceDepKeys = []string{"Build-Depends", "Build-Depends-Arch", "Build-Depends-Indep"}

func sourcesFields(name string) []FSpec {
	return []FSpec{
		{"Package", "Package", "scalar", []Variant{scalar(name)}},
		{"Binary", "Binaries", "list", []Variant{list([]string{"hello", "hello-doc", "libhello1"}, "hello, hello-doc, libhello1"), list([]string{"hello"}, "hello"),
			list([]string{"hello", "hello-doc", "libhello1"}, "hello, hello-doc,", "libhello1")}},
		{"Version", "Version", "version", []Variant{ver("2.10-1"), ver("1:2.10~rc1-1")}},
		{"Maintainer", "Maintainer", "scalar", []Variant{scalar("Santiago Vila <sanvila@debian.org>")}},
		{"Uploaders", "Uploaders", "scalar", []Variant{scalar("Jane Roe <jane@example.org>, John Doe <jd@example.org>")}},
		{"Architecture", "Architecture", "archlist", []Variant{archs("any", "all"), archs("any"), archs("linux-any", "kfreebsd-amd64")}},
		{"Standards-Version", "StandardsVersion", "scalar", []Variant{scalar("4.6.2")}},
		{"Format", "Format", "scalar", []Variant{scalar("3.0 (quilt)")}},
		{"Files", "Files", "md5", []Variant{files("md5", h1, h2, h3), files("md5", h2)}},
		{"Vcs-Browser", "VcsBrowser", "scalar", []Variant{scalar("https://salsa.debian.org/sanvila/hello")}},
		{"Vcs-Git", "VcsGit", "scalar", []Variant{scalar("https://salsa.debian.org/sanvila/hello.git")}},
		{"Vcs-Svn", "VcsSvn", "scalar", []Variant{scalar("svn://svn.example.org/hello")}},
		{"Vcs-Bzr", "VcsBzr", "scalar", []Variant{scalar("lp:hello")}},
		{"Checksums-Sha1", "ChecksumsSha1", "sha1", []Variant{files("sha1", s1, s2), files("sha1", s1)}},
		{"Checksums-Sha256", "ChecksumsSha256", "sha256", []Variant{files("sha256", t1, t2, t3), files("sha256", t1)}},
		{"Homepage", "Homepage", "scalar", []Variant{scalar("https://www.gnu.org/software/hello/")}},
		{"Directory", "Directory", "scalar", []Variant{scalar("pool/main/h/hello")}},
		{"Priority", "Priority", "scalar", []Variant{scalar("optional")}},
		{"Section", "Section", "scalar", []Variant{scalar("devel")}},
	}
}

func debControlFields() []FSpec {
	return []FSpec{
		{"Package", "Package", "scalar", []Variant{scalar("hello")}},
		{"Source", "Source", "scalar", []Variant{scalar("hello-src")}},
		{"Version", "Version", "version", []Variant{ver("2.10-1+b1"), ver("1:2.10-1")}},
		{"Architecture", "Architecture", "arch", []Variant{arch("amd64"), arch("all"), arch("hurd-i386")}},
		{"Maintainer", "Maintainer", "scalar", []Variant{scalar("Santiago Vila <sanvila@debian.org>")}},
		{"Installed-Size", "InstalledSize", "int", []Variant{intv(280)}},
		{"Multi-Arch", "MultiArch", "scalar", []Variant{scalar("same")}},
		{"Depends", "Depends", "dep", depVariants()},
		{"Recommends", "Recommends", "dep", depVariants()},
		{"Suggests", "Suggests", "dep", depVariants()},
		{"Breaks", "Breaks", "dep", depVariants()},
		{"Replaces", "Replaces", "dep", depVariants()},
		{"Built-Using", "BuiltUsing", "dep", []Variant{dep("gcc-12 (= 12.2.0-14)")}},
		{"Section", "Section", "scalar", []Variant{scalar("devel")}},
		{"Priority", "Priority", "scalar", []Variant{scalar("optional")}},
		{"Homepage", "Homepage", "scalar", []Variant{scalar("https://www.gnu.org/software/hello/")}},
		{"Description", "Description", "scalar", []Variant{multi("example package", "long text", ".", "more"), scalar("short"), multi("verbatim block", "  .", "  #1", "  x"), bigDescription(3000)}},
	}
}

// withAudit extends a field table with variants built from the literals a change introduced into the code
// (alphabet audit): strings as scalar values, list elements, architecture / package names, versions; integers as
// numbers, list lengths and file counts.
func withAudit(fields []FSpec) []FSpec {
	strs := gen.AuditStrings(func(s string) bool { return gen.OneLine(s) && strings.TrimSpace(s) == s && !strings.HasPrefix(s, "#") }, 2)
	names := gen.AuditStrings(func(s string) bool {
		return gen.Nameish(s) && !strings.ContainsAny(s, "-+.") && (s[0] >= 'a' && s[0] <= 'z' || s[0] >= '0' && s[0] <= '9')
	}, 2)
	ints := gen.AuditInts(0, 1<<31, 4)
	var lens []int64
	for _, n := range gen.AuditInts(2, 40, 3) {
		lens = append(lens, n)
	}
	if len(strs) == 0 && len(names) == 0 && len(ints) == 0 {
		return fields
	}
	out := make([]FSpec, len(fields))
	copy(out, fields)
	for i := range out {
		f := &out[i]
		f.Vars = append([]Variant{}, f.Vars...)
		switch f.Kind {
		case "scalar":
			if len(f.Vars[0].Lines) == 1 {
				for _, t := range strs {
					f.Vars = append(f.Vars, scalar(t), scalar("x "+t+" y"))
				}
			}
		case "int":
			for _, n := range append(append([]int64{}, ints...), gen.AuditPow2()...) {
				if n < 1<<31 {
					f.Vars = append(f.Vars, intv(int(n)))
				}
			}
		case "version":
			for _, t := range gen.AuditStrings(gen.Versionish, 2) {
				if t[0] >= '0' && t[0] <= '9' && !strings.HasSuffix(t, "-") && !strings.Contains(t, ":") {
					f.Vars = append(f.Vars, ver(t), ver("1:2."+t+"-1"))
				}
			}
			for _, n := range ints {
				f.Vars = append(f.Vars, ver(fmt.Sprint(n)), ver(fmt.Sprintf("%d:1.0-%d", n, n)))
			}
		case "arch":
			for _, t := range names {
				f.Vars = append(f.Vars, arch(t), arch(t+"-any"), arch("gnu-"+t+"-amd64"))
			}
		case "archlist":
			for _, t := range names {
				f.Vars = append(f.Vars, archs(t), archs("amd64", t+"-any", "any-"+t))
			}
		case "dep":
			for _, t := range names {
				f.Vars = append(f.Vars, dep(t+" (>= 1) | x ["+t+"], y:"+t))
			}
			for _, n := range lens {
				var rel []string
				for k := int64(0); k < n; k++ {
					rel = append(rel, fmt.Sprintf("p%d (>= %d)", k, k))
				}
				f.Vars = append(f.Vars, dep(strings.Join(rel, ", ")))
			}
		case "list":
			sep := " "
			if strings.Contains(f.Vars[0].Lines[0], ",") {
				sep = ", "
			}
			for _, t := range names {
				f.Vars = append(f.Vars, list([]string{"a", t, "c"}, "a"+sep+t+sep+"c"))
			}
			for _, n := range lens {
				var el []string
				for k := int64(0); k < n; k++ {
					el = append(el, fmt.Sprintf("e%d", k))
				}
				f.Vars = append(f.Vars, list(el, strings.Join(el, sep)))
			}
		case "md5", "sha1", "sha256", "chfiles":
			for _, n := range lens {
				var es []fileEntry
				for k := int64(0); k < n; k++ {
					es = append(es, fileEntry{fmt.Sprintf("%032x", k+1), int(k) + 1, fmt.Sprintf("f%d.tar.gz", k), "devel", "optional"})
				}
				alg := f.Kind
				if alg == "chfiles" {
					alg = "changes"
				}
				if f.Key != "Conffiles" {
					f.Vars = append(f.Vars, files(alg, es...))
				}
			}
			for _, n := range append(append([]int64{}, ints...), gen.AuditPow2()...) {
				if f.Key != "Conffiles" {
					alg := f.Kind
					if alg == "chfiles" {
						alg = "changes"
					}
					f.Vars = append(f.Vars, files(alg, fileEntry{"00ff", int(n), fmt.Sprintf("big%d.tar", n), "devel", "optional"}))
				}
			}
		}
	}
	return out
}
