package c10

import (
	"fmt"

	"verifharness/sched"
)

// ConcurrentPrograms: the typed parsers run at the same time on the baseline documents of every kind.
func ConcurrentPrograms() []sched.Program {
	var ops []sched.Op
	for _, kind := range []string{"dsc", "changes", "control", "packages", "sources", "debcontrol"} {
		in := baselineIn(kind)
		text, tables := render(in)
		ops = append(ops, sched.Op{Label: "parse(" + kind + " baseline)", F: func() string {
			paras, err := parse(in, text)
			if err != nil {
				return "error: " + err.Error()
			}
			out := ""
			for pi, t := range tables {
				if pi >= len(paras) {
					break
				}
				for _, f := range t {
					if fv := paras[pi].FieldByName(f.Go); fv.IsValid() {
						out += Observe(fv, f.Kind) + ";"
					}
				}
			}
			return fmt.Sprintf("%d %s", len(paras), out)
		}})
	}
	return sched.PairPrograms(ops)
}
