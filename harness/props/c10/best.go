package c10

// "Best checksums" accessor: BestChecksums.Checksums() of a record answers for the paragraph the record holds NOW - the
// SHA-256 list when the paragraph has one, else the SHA-512 list - whether the record is an element of a decoded slice
// or one variable a streaming loop decodes every paragraph into, and however often it is asked.

import (
	"fmt"
	"io"
	"strings"

	"pault.ag/go/debian/control"
	"pault.ag/go/debian/deb"
	"verifharness/mc"
)

// BestIn is the replayable input: which paragraphs (indices into bestParas) make up the Sources document, in order.
type BestIn struct {
	Paras []int
	Path  string // "slice" | "loop" (one reused variable) | "loop-ask-twice"
}

type bestPara struct {
	name   string
	sha256 [][3]string // hash, size, name
	sha512 [][3]string
}

func h256(c byte) string { return strings.Repeat(string(c), 64) }
func h512(c byte) string { return strings.Repeat(string(c), 128) }

var bestParas = []bestPara{
	{"two-a", [][3]string{{h256('a'), "10", "p_1.dsc"}, {h256('b'), "20", "p_1.tar.gz"}}, nil},
	{"two-b", [][3]string{{h256('c'), "11", "q_2.dsc"}, {h256('d'), "21", "q_2.tar.gz"}}, nil}, // same number of files, other entries
	{"two-512", nil, [][3]string{{h512('e'), "12", "r_3.dsc"}, {h512('f'), "22", "r_3.tar.gz"}}},
	{"both", [][3]string{{h256('1'), "13", "s_4.dsc"}, {h256('2'), "23", "s_4.tar.gz"}}, [][3]string{{h512('3'), "13", "s_4.dsc"}, {h512('4'), "23", "s_4.tar.gz"}}},
	{"three", [][3]string{{h256('5'), "14", "t_5.dsc"}, {h256('6'), "24", "t_5.tar.gz"}, {h256('7'), "34", "t_5.debian.tar.xz"}}, nil},
	{"none", nil, nil},
	{"one-512", nil, [][3]string{{h512('8'), "15", "u_6.dsc"}}},
}

func (p bestPara) text(i int) string {
	var sb strings.Builder
	fmt.Fprintf(&sb, "Package: src%d-%s\nBinary: b%d\nVersion: 1.%d-1\nArchitecture: any\n", i, p.name, i, i)
	if p.sha256 != nil {
		sb.WriteString("Checksums-Sha256:\n")
		for _, e := range p.sha256 {
			fmt.Fprintf(&sb, " %s %s %s\n", e[0], e[1], e[2])
		}
	}
	if p.sha512 != nil {
		sb.WriteString("Checksums-Sha512:\n")
		for _, e := range p.sha512 {
			fmt.Fprintf(&sb, " %s %s %s\n", e[0], e[1], e[2])
		}
	}
	return sb.String()
}

func (p bestPara) want() string {
	l := p.sha256
	alg := "sha256"
	if len(l) == 0 {
		l, alg = p.sha512, "sha512"
	}
	var out []string
	for _, e := range l {
		out = append(out, alg+" "+e[0]+" "+e[1]+" "+e[2])
	}
	return strings.Join(out, "; ")
}

func canonBest(l []control.FileHash) string {
	var out []string
	for _, e := range l {
		out = append(out, fmt.Sprintf("%s %s %d %s", e.Algorithm, e.Hash, e.Size, e.Filename))
	}
	return strings.Join(out, "; ")
}

func checkBest(scen string, in BestIn) []*mc.Violation {
	var doc strings.Builder
	for i, k := range in.Paras {
		if k < 0 || k >= len(bestParas) {
			return nil
		}
		if i > 0 {
			doc.WriteString("\n")
		}
		doc.WriteString(bestParas[k].text(i))
	}
	var vs []*mc.Violation
	bad := func(i int, how, got string) {
		vs = append(vs, mc.V(scen, "accessor-agrees-with-model", in, fmt.Sprintf("paragraph %d (%s): %s", i, bestParas[in.Paras[i]].name, bestParas[in.Paras[i]].want()), how+": "+got, "accessor:BestChecksums.Checksums()"))
	}
	if p, msg := mc.Guard(func() {
		switch in.Path {
		case "slice":
			var l []WrappedSource
			if err := control.Unmarshal(&l, strings.NewReader(doc.String())); err != nil || len(l) != len(in.Paras) {
				vs = append(vs, mc.V(scen, "document-decodes", in, fmt.Sprintf("%d records", len(in.Paras)), fmt.Sprintf("%d records, %v", len(l), err)))
				return
			}
			for i := range l {
				if g := canonBest(l[i].Checksums()); g != bestParas[in.Paras[i]].want() {
					bad(i, "element of the decoded slice", g)
				}
			}
			for i := len(l) - 1; i >= 0; i-- { // asked again, in the other order
				if g := canonBest(l[i].Checksums()); g != bestParas[in.Paras[i]].want() {
					bad(i, "element of the decoded slice, asked again", g)
				}
			}
		default:
			dec, err := control.NewDecoder(strings.NewReader(doc.String()), nil)
			if err != nil {
				vs = append(vs, mc.V(scen, "document-decodes", in, "a decoder", err.Error()))
				return
			}
			var e WrappedSource // ONE variable for every paragraph
			for i := 0; ; i++ {
				// like encoding/json, Decode leaves alone what the paragraph does not mention: the loop clears the lists itself
				e.BestChecksums.ChecksumsSha256, e.BestChecksums.ChecksumsSha512 = nil, nil
				err := dec.Decode(&e)
				if err == io.EOF {
					if i != len(in.Paras) {
						vs = append(vs, mc.V(scen, "document-decodes", in, fmt.Sprintf("%d records", len(in.Paras)), fmt.Sprintf("%d", i)))
					}
					return
				}
				if err != nil || i >= len(in.Paras) {
					vs = append(vs, mc.V(scen, "document-decodes", in, fmt.Sprintf("%d records", len(in.Paras)), fmt.Sprintf("record %d: %v", i, err)))
					return
				}
				if g := canonBest(e.Checksums()); g != bestParas[in.Paras[i]].want() {
					bad(i, "one variable decoded into again", g)
				}
				if in.Path == "loop-ask-twice" {
					if g := canonBest(e.Checksums()); g != bestParas[in.Paras[i]].want() {
						bad(i, "one variable decoded into again, asked twice", g)
					}
				}
			}
		}
	}); p {
		vs = append(vs, mc.V(scen, "document-decodes", in, "no panic", msg))
	}
	return vs
}

func addBestScenario(r *mc.Run) {
	n := len(bestParas)
	var ins []BestIn
	for a := 0; a < n; a++ {
		for b := 0; b < n; b++ {
			for _, path := range []string{"slice", "loop", "loop-ask-twice"} {
				ins = append(ins, BestIn{[]int{a, b}, path})
				for c := 0; c < n; c++ {
					ins = append(ins, BestIn{[]int{a, b, c}, path})
				}
			}
		}
	}
	const scen = "best-checksums-accessor-histories"
	r.Scenario(scen, map[string]interface{}{"paragraph_kinds": n, "documents": "every sequence of 2 and 3 paragraphs", "access_paths": "decoded slice (asked twice, both orders); one variable decoded into again (asked once / twice)"}, 16, func(sh int, st *mc.Stats) bool {
		for i := sh; i < len(ins); i += 16 {
			st.Evals++
			st.Traces++
			st.Nontrivial++
			vs := checkBest(scen, ins[i])
			for _, v := range vs {
				st.Violate(v)
			}
			if len(vs) == 0 {
				st.Class("agrees")
			} else {
				st.Class("differs")
			}
		}
		return true
	})
}

// ---- the control file of a .deb after the decoder settings were changed and put back ----

// KnobIn: deb.SetXZMaxDict calls made before a package whose control member is control.tar.xz (preset 6: an 8 MiB
// dictionary) is loaded. Only histories after which the documented limit in force admits 8 MiB are listed: the control
// file then decodes to the model like through any other path.
type KnobIn struct {
	Calls []uint32
	Doc   In
}

func checkKnob(scen string, k KnobIn) []*mc.Violation {
	defer deb.SetXZMaxDict(0)
	for _, v := range k.Calls {
		deb.SetXZMaxDict(v)
	}
	vs := check(scen, k.Doc)
	for _, v := range vs {
		v.Input, _ = mc.MarshalInput(k)
		v.Features = append(v.Features, fmt.Sprintf("after SetXZMaxDict%v", k.Calls))
	}
	return vs
}

func addKnobScenario(r *mc.Run) {
	const scen = "deb-control-after-decoder-settings"
	base := baselineIn("debcontrol")
	base.Via = "deb:xz"
	if _, err := debComp.Compress("xz", []byte("probe")); err != nil {
		r.Extra[scen] = "not run: no xz encoder available (" + err.Error() + ")"
		return
	}
	const small, mid, big = 1 << 20, 16 << 20, 64 << 20
	seqs := [][]uint32{nil, {0}, {small, 0}, {small, 0, 0}, {small, big}, {mid}, {small, mid}, {0, small, 0}, {big, 0}, {small, small, 0}}
	r.Scenario(scen, map[string]interface{}{"histories": seqs, "package": "control.tar.xz written with preset 6 (8 MiB dictionary)", "workers": 1, "note": "the knob is process-wide; no other scenario of this check loads xz members"}, 1, func(_ int, st *mc.Stats) bool {
		for _, sq := range seqs {
			st.Evals++
			st.Traces++
			st.Nontrivial++
			vs := checkKnob(scen, KnobIn{sq, base})
			for _, v := range vs {
				st.Violate(v)
			}
			if len(vs) == 0 {
				st.Class("decodes-to-the-model")
			} else {
				st.Class("differs")
			}
		}
		return true
	})
}
