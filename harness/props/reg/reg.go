// Package reg is the registry of property checks.
package reg

import (
	"encoding/json"
	"sort"

	"verifharness/mc"
)

// Prop is one property's check: Run explores, Replay re-executes one concrete input through the same oracle
// (without the explorer) and returns the violations that input still produces.
type Prop struct {
	ID     string
	Run    func(r *mc.Run)
	Replay func(scenario string, input json.RawMessage) []*mc.Violation
}

var props = map[string]*Prop{}

func Register(p *Prop) { props[p.ID] = p }

func Get(id string) *Prop { return props[id] }

func IDs() []string {
	var ids []string
	for k := range props {
		ids = append(ids, k)
	}
	sort.Strings(ids)
	return ids
}
