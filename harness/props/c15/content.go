package c15

// Valid containers around near-miss CONTENT: (a) well-formed ar + tar (+ gzip) packages whose control paragraph takes
// near-miss values in every typed field of deb.Control, and near-miss paragraph shapes; (b) well-formed ar archives
// whose control.* / data.* member carries a broken stream of the encoding its name announces, for every encoding the
// library knows. Oracle as everywhere in C15: no panic, returns, error or a value, same outcome on reload.

import (
	"fmt"
	"strings"

	"verifharness/gen"
	"verifharness/mc"
)

type fieldKV struct{ k, v string }

var baseControl = []fieldKV{
	{"Package", "a"}, {"Source", "src"}, {"Version", "1.0-1"}, {"Architecture", "all"}, {"Maintainer", "M <m@example.org>"},
	{"Installed-Size", "10"}, {"Multi-Arch", "foreign"}, {"Depends", "b (>= 1), c | d"}, {"Recommends", "e"}, {"Suggests", "f"},
	{"Breaks", "g (<< 2)"}, {"Replaces", "g"}, {"Built-Using", "h (= 1)"}, {"Section", "misc"}, {"Priority", "optional"},
	{"Homepage", "http://example.org"}, {"Description", "short\n long line\n .\n more"},
	{"Pre-Depends", "p"}, {"Conflicts", "q"}, {"Provides", "v"}, {"Enhances", "w"},
}

func renderControl(fs []fieldKV) string {
	var b strings.Builder
	for _, f := range fs {
		b.WriteString(f.k + ": " + f.v + "\n")
	}
	return b.String()
}

// nearMiss lists, per typed field of deb.Control, the values just outside (and on the edge of) what its type accepts.
func nearMiss() map[string][]string {
	version := []string{"", "-", "-1", "1:-1", ":", "1:", ":1", "a", "1 2", "٣", "12345678901234567890123456:1", "x:1", "1:2:", "1-", "0", "1:0-0", " 1", "1\t"}
	arch := []string{"", "-", "linux-", "-amd64", "a-b-c-d", "any-any-any-any", "any", "linux-any", "amd64 i386", "!amd64", "amd64,"}
	dep := []string{"", "a (", "a [", "a <", "${", "a (>= 1", "a | ", "|", ",", "a b", "a (?? 1)", "a (>= )", "a [!]", "a <!>", "a:", "a (= 1) (= 2)", "${x} (>= 1)", "a [amd64 ", ")", "a, , b"}
	num := []string{"", "-1", "x", "1 2", "12345678901234567890123456", "1.5", "٣", "+1", "0x10", " 7"}
	text := []string{"", " ", "\n x", "a\tb", "\x00"}
	// hostile bytes in every typed field: NUL, DEL, 0x80..0xff, alone / after / inside a value and inside every bracket
	hostile := []string{"\x00", "a\x00", "a\x00b", "\x00a", "a (>= 1\x00)", "a (\x00", "a [\x00]", "a <\x00>", "${\x00}", "a, \x00", "a | \x00", "a\x00, b", "1\x00", "1.0\x00-1",
		"\x7f", "a\x7f", "\x80", "a\x80b", "\xff", "a (>= \xff)", "a [\xff]", "\xff\xfe\xfd", "a\xc3", "999999999999999999999999999999", "a (= 999999999999999999999999999999)"}
	version, arch, dep, num, text = append(version, hostile...), append(arch, hostile...), append(dep, hostile...), append(num, hostile...), append(text, hostile...)
	add := func(vals []string, extra []string) []string { return append(append([]string{}, vals...), extra...) }
	aud := gen.AuditStrings(gen.OneLine, 6) // alphabet audit: literals a change introduced, in every typed field
	m := map[string][]string{
		"Version": add(version, aud), "Architecture": add(arch, aud), "Installed-Size": add(num, gen.AuditIntStrings(0, 1<<62, 6)),
		"Package": text, "Multi-Arch": text, "Description": text,
	}
	for _, f := range []string{"Depends", "Recommends", "Suggests", "Breaks", "Replaces", "Built-Using", "Pre-Depends", "Conflicts", "Provides", "Enhances"} {
		m[f] = add(dep, aud)
	}
	for _, f := range []string{"Source", "Maintainer", "Section", "Priority", "Homepage"} {
		m[f] = text
	}
	return m
}

type contentIn struct {
	desc    string
	control string
}

func controlContents() []contentIn {
	var out []contentIn
	nm := nearMiss()
	for i, f := range baseControl {
		vals, ok := nm[f.k]
		if !ok {
			continue
		}
		for _, v := range vals {
			fs := append([]fieldKV(nil), baseControl...)
			fs[i].v = v
			out = append(out, contentIn{fmt.Sprintf("control %s=%q", f.k, v), renderControl(fs)})
		}
		// the field absent
		fs := append(append([]fieldKV(nil), baseControl[:i]...), baseControl[i+1:]...)
		out = append(out, contentIn{"control without " + f.k, renderControl(fs)})
	}
	full := renderControl(baseControl)
	shapes := []contentIn{
		{"control paragraph empty", ""},
		{"control only a newline", "\n"},
		{"control only comments", "# a\n# b\n"},
		{"control continuation line first", " orphan\n" + full},
		{"control duplicate field", full + "Version: 2.0\n"},
		{"control duplicate typed field with a near-miss", full + "Version: -1\n"},
		{"control no final newline", strings.TrimSuffix(full, "\n")},
		{"control no final newline after a near-miss", "Package: a\nArchitecture: all\nVersion: -"},
		{"control CRLF line ends", strings.ReplaceAll(full, "\n", "\r\n")},
		{"control two paragraphs", full + "\n" + full},
		{"control blank line first", "\n" + full},
		{"control field without colon", "Package a\n" + full},
		{"control colon only", ":\n" + full},
		{"control NUL bytes", "Package: a\x00\nVersion: 1\x00\nArchitecture: all\n"},
	}
	out = append(out, shapes...)
	// field names that are Go member names of deb.Control / control.Paragraph / deb.Deb (the decoder works by reflection
	// over those structs), and of the field types
	for _, n := range []string{"Paragraph", "Order", "Values", "Control", "Filename", "Path", "Data", "Closer", "ControlExt", "DataExt", "ArContent",
		"InstalledSize", "MultiArch", "BuiltUsing", "Epoch", "Revision", "Relations", "Possibilities", "ABI", "OS", "CPU", "Name", "Arch", "Arches", "paragraph", "PARAGRAPH"} {
		for _, v := range []string{"x", "1", "a, b | c (>= 1)", ""} {
			out = append(out, contentIn{fmt.Sprintf("control extra field %s=%q", n, v), full + n + ": " + v + "\n"})
			out = append(out, contentIn{fmt.Sprintf("control first field %s=%q", n, v), n + ": " + v + "\n" + full})
		}
	}
	return append(out, clearsignShapes()...)
}

// a clearsigned control file (the signature is armour-shaped filler: deb.Load passes no keyring)
func clearsigned() string {
	return "-----BEGIN PGP SIGNED MESSAGE-----\nHash: SHA256\n\n" + renderControl(baseControl[:5]) +
		"-----BEGIN PGP SIGNATURE-----\n\niQEzBAEBCAAdFiEEabcdefghijklmnopqrstuvwxyz0123456789ABCDEFGHIJKL\nMNOPQRSTUVWXYZabcdefghijklmnopqrstuvwxyz0123456789+/ABCDEFGHIJKL\n=AbCd\n-----END PGP SIGNATURE-----\n"
}

func clearsignShapes() []contentIn {
	doc := clearsigned()
	out := []contentIn{
		{"clearsigned control, complete", doc},
		{"clearsign BEGIN line alone", "-----BEGIN PGP SIGNED MESSAGE-----\n"},
		{"clearsign BEGIN line without newline", "-----BEGIN PGP SIGNED MESSAGE-----"},
		{"clearsign BEGIN line with trailing garbage", "-----BEGIN PGP SIGNED MESSAGE----- garbage\nPackage: a\n"},
		{"only '-----BEGIN PGP '", "-----BEGIN PGP "},
		{"'-----BEGIN PGP ' then a paragraph", "-----BEGIN PGP \nPackage: a\nVersion: 1\nArchitecture: all\n"},
		{"armour of a public key block", "-----BEGIN PGP PUBLIC KEY BLOCK-----\n\nmQENBF\n=AbCd\n-----END PGP PUBLIC KEY BLOCK-----\n"},
		{"armour of a message", "-----BEGIN PGP MESSAGE-----\n\nhQEMA\n=AbCd\n-----END PGP MESSAGE-----\n"},
		{"signature armour only", doc[strings.Index(doc, "-----BEGIN PGP SIGNATURE"):]},
		{"two clearsigned documents", doc + doc},
		{"clearsigned document then a plain paragraph", doc + "\n" + renderControl(baseControl)},
		{"plain paragraph then a clearsigned document", renderControl(baseControl) + "\n" + doc},
		{"clearsigned, dash-escaped body line", strings.Replace(doc, "Package: a", "- -Package: a", 1)},
		{"clearsigned, END line missing its dashes", strings.Replace(doc, "-----END PGP SIGNATURE-----", "-----END PGP SIGNATURE", 1)},
		{"clearsigned, CRLF", strings.ReplaceAll(doc, "\n", "\r\n")},
	}
	// every prefix of the clearsigned document (cuts at every armour boundary and everywhere in between)
	for c := 1; c < len(doc); c++ {
		out = append(out, contentIn{fmt.Sprintf("clearsigned control cut at %d of %d", c, len(doc)), doc[:c]})
	}
	return out
}

// ---- truncated tails of typed field values ----

var editSymbols = []string{"(", ")", "[", "]", "<", ">", "!", "$", "{", "}", ",", "|", " ", "a", "\x00", "\x7f", "\x80", "\xff"}

func tails(rich string) []string {
	var out []string
	for c := 0; c <= len(rich); c++ {
		out = append(out, rich[:c])
		for _, e := range editSymbols {
			out = append(out, rich[:c]+e)
		}
		for _, e := range []string{"\x00", "\xff"} { // a hostile byte INSIDE the value: the rest follows
			if c < len(rich) {
				out = append(out, rich[:c]+e+rich[c:])
			}
		}
	}
	return out
}

func (x *runner) controlTailsScenario(r *mc.Run) {
	type tin struct {
		field, val string
	}
	var ins []tin
	richDep := "a:any (>= 1.0) [amd64 !i386] <!x y> <z> | ${misc:Depends}, b"
	for _, f := range []string{"Depends", "Recommends", "Suggests", "Breaks", "Replaces", "Built-Using"} {
		for _, v := range tails(richDep) {
			ins = append(ins, tin{f, v})
		}
	}
	for _, v := range tails("1:2.0~rc1+b1-3") {
		ins = append(ins, tin{"Version", v})
	}
	for _, rich := range []string{"gnu-linux-amd64", "linux-any"} {
		for _, v := range tails(rich) {
			ins = append(ins, tin{"Architecture", v})
		}
	}
	for _, v := range tails("1024") {
		ins = append(ins, tin{"Installed-Size", v})
	}
	idx := map[string]int{}
	for i, f := range baseControl {
		idx[f.k] = i
	}
	const chunk = 64
	x.conv0Only = true
	defer func() { x.conv0Only = false }()
	r.Scenario("control-tails", map[string]interface{}{"inputs": len(ins), "rich_dependency": richDep, "rich_version": "1:2.0~rc1+b1-3", "rich_architectures": []string{"gnu-linux-amd64", "linux-any"},
		"values": "every prefix of the rich value, and every prefix followed by one of " + strings.Join(editSymbols, " "), "fields": "the six dependency fields, Version, Architecture, Installed-Size",
		"container": "well-formed stored package; deb.Load (bytes.Reader), twice"},
		(len(ins)+chunk-1)/chunk, func(shard int, st *mc.Stats) bool {
			lim := limiter{}
			for i := shard * chunk; i < (shard+1)*chunk && i < len(ins); i++ {
				fs := append([]fieldKV(nil), baseControl...)
				fs[idx[ins[i].field]].v = ins[i].val
				st.Transitions++
				if !x.one("control-tails", st, lim, gen.ArmBuild(debWith(renderControl(fs), false)), "load", fmt.Sprintf("control %s=%q", ins[i].field, ins[i].val)) {
					return false
				}
			}
			return !r.Expired()
		})
}

// debWith builds a well-formed package around a control file text.
func debWith(control string, gzBoth bool) []gen.ArmMember {
	ctl, dat := tarOf("./control", control), tarOf("./usr/share/doc/a/x", "hello\n")
	cn, dn := "control.tar", "data.tar"
	if gzBoth {
		ctl, dat, cn, dn = gz(ctl), gz(dat), cn+".gz", dn+".gz"
	}
	return []gen.ArmMember{mem("debian-binary", []byte("2.0\n")), mem(cn, ctl), mem(dn, dat)}
}

func (x *runner) controlContentScenario(r *mc.Run) {
	cs := controlContents()
	const chunk = 8
	r.Scenario("control-content", map[string]interface{}{"contents": len(cs), "containers": "well-formed ar + tar, stored/stored and gzip/gzip",
		"typed_fields": []string{"Version", "Architecture", "Installed-Size", "Depends", "Recommends", "Suggests", "Breaks", "Replaces", "Built-Using", "Package", "Multi-Arch", "Description"},
		"via":          "deb.Load (both conventions, twice) + deb.LoadFile (closer, Deb.Close)"},
		(len(cs)+chunk-1)/chunk, func(shard int, st *mc.Stats) bool {
			lim := limiter{}
			for i := shard * chunk; i < (shard+1)*chunk && i < len(cs); i++ {
				for _, gzBoth := range []bool{false, true} {
					b := gen.ArmBuild(debWith(cs[i].control, gzBoth))
					d := cs[i].desc + map[bool]string{false: " (stored)", true: " (gzip)"}[gzBoth]
					st.Transitions++
					if !x.one("control-content", st, lim, b, "load", d) || !x.one("control-content", st, lim, b, fileVia("closer,deb"), d) {
						return false
					}
				}
			}
			return !r.Expired()
		})
}

// ---- broken streams under every encoding the library knows ----

type streamIn struct {
	desc  string
	ms    []gen.ArmMember
	heavy bool
}

func flip(b []byte, at int) []byte {
	c := append([]byte(nil), b...)
	if at >= 0 && at < len(c) {
		c[at] ^= 0x55
	}
	return c
}

// protectedByte: bytes of a valid stream that DECLARE how much memory the decoder should set aside - the lzma-alone
// dictionary size (bytes 1-4), the xz block header (dictionary-size property, bytes 12-23), the zstd frame header
// descriptor / window descriptor / content size (bytes 4-13), bzip2's block-size digit (byte 3). They are never
// mutated: a hostile value there makes a third-party decoder allocate up to 4 GiB, which says nothing about the library.
func protectedByte(comp string, i int) bool {
	switch comp {
	case "lzma":
		return i >= 1 && i <= 4
	case "xz":
		return i >= 12 && i <= 23
	case "zst":
		return i >= 4 && i <= 13
	case "bz2":
		return i == 3
	}
	return false
}

// declaresTooMuch: would the decoder for comp read a dictionary size above 8 MiB out of these bytes? Only lzma-alone
// has no magic in front of its size field, so any foreign content under a .lzma name is screened.
func declaresTooMuch(comp string, v []byte) bool {
	if comp == "lzma" && len(v) >= 5 {
		d := uint32(v[1]) | uint32(v[2])<<8 | uint32(v[3])<<16 | uint32(v[4])<<24
		return d > 8<<20
	}
	return false
}

// flipAt flips the first unprotected byte at or after i.
func flipAt(comp string, b []byte, i int) ([]byte, int) {
	for i < len(b) && protectedByte(comp, i) {
		i++
	}
	return flip(b, i), i
}

// thirdPartySem: at most two executions that go through a third-party decoder run at the same time.
var thirdPartySem = make(chan struct{}, 2)

// streamVariants: the menu of contents for a member that announces encoding comp; valid is the valid stream, others
// are valid streams of the other encodings.
func streamVariants(comp string, valid []byte, others map[string][]byte) (descs []string, vals [][]byte) {
	add := func(d string, v []byte) {
		if declaresTooMuch(comp, v) {
			return
		}
		descs, vals = append(descs, d), append(vals, v)
	}
	fl := func(d string, at int) {
		v, i := flipAt(comp, valid, at)
		if i < len(valid) {
			add(fmt.Sprintf("valid stream, byte %d flipped (%s)", i, d), v)
		}
	}
	add("empty", []byte{})
	if len(valid) > 0 {
		add("first byte only", valid[:1])
	}
	if len(valid) >= 9 {
		add("9 bytes of valid prefix", valid[:9])
	}
	h := 24
	if h > len(valid) {
		h = len(valid)
	}
	add("valid header then garbage", append(append([]byte(nil), valid[:h]...), []byte(strings.Repeat("garbage!", 8))...))
	fl("after the magic", 2)
	fl("after the magic", 3)
	for _, o := range gen.DebComps {
		if o != comp {
			if z, ok := others[o]; ok {
				add("a valid "+o+" stream under this name", z)
			}
		}
	}
	for c := 64; c < len(valid); c += 64 {
		add(fmt.Sprintf("valid stream cut at %d of %d", c, len(valid)), valid[:c])
	}
	if len(valid) > 1 {
		add("valid stream without its last byte", valid[:len(valid)-1])
		fl("first byte", 0)
		fl("header", 5)
		fl("middle", len(valid)/2)
		fl("trailer", len(valid)-3)
		fl("last byte", len(valid)-1)
	}
	add("valid stream followed by garbage", append(append([]byte(nil), valid...), []byte("trailing garbage")...))
	return
}

func (x *runner) streamScenario(r *mc.Run) {
	ctlTar, datTar := tarOf("./control", controlText), tarOf("./usr/share/doc/a/x", "hello\n")
	c := gen.NewDebCompressor()
	if err := c.Prepare(gen.DebComps, ctlTar, datTar); err != nil {
		r.HarnessError("compressors: %v", err)
		return
	}
	enc := func(raw []byte) map[string][]byte {
		m := map[string][]byte{}
		for _, comp := range gen.DebComps {
			if z, err := c.Compress(comp, raw); err == nil {
				m[comp] = z
			}
		}
		return m
	}
	ctlEnc, datEnc := enc(ctlTar), enc(datTar)
	r.Extra["stream_encodings_unavailable"] = c.Unavailable()
	var ins []streamIn
	for _, comp := range gen.DebComps {
		ext := gen.DebCompExt(comp)
		heavy := comp != "none" && comp != "gz"
		if z, ok := ctlEnc[comp]; ok {
			ds, vs := streamVariants(comp, z, ctlEnc)
			for i := range ds {
				ins = append(ins, streamIn{"control.tar" + ext + ": " + ds[i], []gen.ArmMember{mem("debian-binary", []byte("2.0\n")), mem("control.tar"+ext, vs[i]), mem("data.tar", datTar)}, heavy})
			}
		}
		if z, ok := datEnc[comp]; ok {
			ds, vs := streamVariants(comp, z, datEnc)
			for i := range ds {
				ins = append(ins, streamIn{"data.tar" + ext + ": " + ds[i], []gen.ArmMember{mem("debian-binary", []byte("2.0\n")), mem("control.tar", ctlTar), mem("data.tar"+ext, vs[i])}, heavy})
			}
		}
	}
	const chunk = 4
	r.Scenario("member-streams", map[string]interface{}{"inputs": len(ins), "encodings": gen.DebComps, "members": "control.tar<ext>, data.tar<ext> (the other member stored and valid)",
		"contents": "empty | 1 byte | 9-byte prefix | header+garbage | magic ok + wrong next bytes | a valid stream of each other encoding | cut at every 64th offset and at len-1 | one flipped byte at 0, 5, middle, len-3, len-1 | valid+garbage",
		"via":      "deb.Load (both conventions, twice) + deb.LoadFile x 6 release patterns",
		"note":     "xz/bzip2/lzma/zstd decoders on hostile streams are outside the property's claim; a violation there has to be read against that"},
		(len(ins)+chunk-1)/chunk, func(shard int, st *mc.Stats) bool {
			lim := limiter{}
			for i := shard * chunk; i < (shard+1)*chunk && i < len(ins); i++ {
				b := gen.ArmBuild(ins[i].ms)
				st.Transitions++
				if ins[i].heavy {
					thirdPartySem <- struct{}{}
				}
				done := func() {
					if ins[i].heavy {
						<-thirdPartySem
					}
				}
				if !x.one("member-streams", st, lim, b, "load", ins[i].desc) {
					done()
					return false
				}
				pats := ClosePatterns
				if ins[i].heavy {
					pats = []string{"closer,deb"} // third-party decoders allocate MiB-sized dictionaries per open: one release pattern
				}
				for _, p := range pats {
					if !x.one("member-streams", st, lim, b, fileVia(p), ins[i].desc) {
						done()
						return false
					}
				}
				done()
			}
			return !r.Expired()
		})
}

// ---- numeric ranges in INNER containers: tar entry headers with extreme size fields, correct checksums ----

// tarBlock crafts one 512-byte ustar/GNU header. size12 is the raw 12-byte size field.
func tarBlock(name string, typeflag byte, size12 []byte) []byte {
	h := make([]byte, 512)
	copy(h[0:], name)
	copy(h[100:], "0000644\x00")
	copy(h[108:], "0000000\x00")
	copy(h[116:], "0000000\x00")
	copy(h[124:], size12)
	copy(h[136:], "13577336400\x00")
	h[156] = typeflag
	copy(h[257:], "ustar\x0000")
	copy(h[148:], "        ")
	sum := 0
	for _, c := range h {
		sum += int(c)
	}
	copy(h[148:], fmt.Sprintf("%06o\x00 ", sum))
	return h
}

func octal12(v uint64) []byte { return []byte(fmt.Sprintf("%011o\x00", v)) }

// base256 is the GNU binary size encoding: high bit of the first byte set, big-endian two's complement.
func base256(v int64) []byte {
	b := make([]byte, 12)
	fillb := byte(0)
	if v < 0 {
		fillb = 0xff
	}
	for i := range b {
		b[i] = fillb
	}
	for i := 0; i < 8; i++ {
		b[11-i] = byte(uint64(v) >> (8 * uint(i)))
	}
	b[0] |= 0x80
	return b
}

func pad512(b []byte) []byte {
	for len(b)%512 != 0 {
		b = append(b, 0)
	}
	return b
}

func paxRecord(k, v string) string {
	n := len(k) + len(v) + 3
	for {
		s := fmt.Sprintf("%d %s=%s\n", n, k, v)
		if len(s) == n {
			return s
		}
		n = len(s)
	}
}

type tarSize struct {
	desc string
	pax  string // PAX size record value ("" = none)
	f12  []byte
}

func tarSizes() []tarSize {
	out := []tarSize{
		{"octal 0", "", octal12(0)}, {"octal 1", "", octal12(1)}, {"octal 2^31-1", "", octal12(1<<31 - 1)}, {"octal 2^31", "", octal12(1 << 31)},
		{"octal 2^32", "", octal12(1 << 32)}, {"octal 2^33-1 (largest)", "", octal12(1<<33 - 1)},
		{"base-256 2^33", "", base256(1 << 33)}, {"base-256 2^40", "", base256(1 << 40)}, {"base-256 2^47", "", base256(1 << 47)}, {"base-256 2^62", "", base256(1 << 62)},
		{"base-256 -1", "", base256(-1)}, {"base-256 -2^62", "", base256(-(1 << 62))}, {"base-256 5 (small, binary)", "", base256(5)},
		{"PAX size=2^47", "140737488355328", octal12(0)}, {"PAX size=-1", "-1", octal12(0)}, {"PAX size=2^63", "9223372036854775808", octal12(0)}, {"PAX size=x", "x", octal12(5)},
		{"size field blank", "", []byte("            ")}, {"size field not octal", "", []byte("0000000009x\x00")},
	}
	for _, v := range gen.AuditInts(0, 1<<62, 6) { // alphabet audit: numbers a change introduced, as entry sizes
		out = append(out, tarSize{fmt.Sprintf("audit %d", v), "", base256(v)})
	}
	return out
}

// tarWithSize: a tar whose entry `name` claims the given size while body is what really follows.
func tarWithSize(name string, ts tarSize, body string, more []byte) []byte {
	var b []byte
	if ts.pax != "" {
		rec := paxRecord("size", ts.pax)
		b = append(b, tarBlock("PaxHeaders.0/"+strings.TrimPrefix(name, "./"), 'x', octal12(uint64(len(rec))))...)
		b = append(b, pad512([]byte(rec))...)
	}
	b = append(b, tarBlock(name, '0', ts.f12)...)
	b = append(b, pad512([]byte(body))...)
	b = append(b, more...)
	return append(b, make([]byte, 1024)...)
}

func (x *runner) tarHeaderScenario(r *mc.Run) {
	type tin struct {
		desc string
		ms   []gen.ArmMember
	}
	var ins []tin
	goodCtl, goodDat := tarOf("./control", controlText), tarOf("./usr/share/doc/a/x", "hello\n")
	for _, ts := range tarSizes() {
		ctl := tarWithSize("./control", ts, controlText, nil)
		// the same entry after an ordinary first entry, and a data entry
		ctl2 := append(append([]byte(nil), goodCtl[:1024]...), tarWithSize("./control", ts, controlText, nil)...)
		dat := tarWithSize("./usr/share/doc/a/x", ts, "hello\n", nil)
		for _, z := range []bool{false, true} {
			enc := func(name string, raw []byte) gen.ArmMember {
				if z {
					return mem(name+".gz", gz(raw))
				}
				return mem(name, raw)
			}
			tag := map[bool]string{false: " (stored)", true: " (gzip)"}[z]
			bin := mem("debian-binary", []byte("2.0\n"))
			ins = append(ins,
				tin{"control entry size " + ts.desc + tag, []gen.ArmMember{bin, enc("control.tar", ctl), enc("data.tar", goodDat)}},
				tin{"second control entry size " + ts.desc + tag, []gen.ArmMember{bin, enc("control.tar", ctl2), enc("data.tar", goodDat)}},
				tin{"data entry size " + ts.desc + tag, []gen.ArmMember{bin, enc("control.tar", goodCtl), enc("data.tar", dat)}})
		}
	}
	const chunk = 4
	r.Scenario("tar-entry-sizes", map[string]interface{}{"inputs": len(ins), "entries": "./control (first, and after another entry), a data entry", "containers": "stored and gzip",
		"size_fields": "octal 0, 1, 2^31-1, 2^31, 2^32, 2^33-1 | GNU base-256 2^33, 2^40, 2^47, 2^62, -1, -2^62, 5 | PAX size 2^47, -1, 2^63, x | blank | not octal; correct header checksums",
		"via":         "ar level (every member also opened with Tarfile and drained) + deb.Load + deb.LoadFile (closer,deb); the harness never allocates by the claimed size"},
		(len(ins)+chunk-1)/chunk, func(shard int, st *mc.Stats) bool {
			lim := limiter{}
			for i := shard * chunk; i < (shard+1)*chunk && i < len(ins); i++ {
				b := gen.ArmBuild(ins[i].ms)
				st.Transitions++
				x.one("tar-entry-sizes", st, lim, b, "ar", ins[i].desc)
				if !x.one("tar-entry-sizes", st, lim, b, "load", ins[i].desc) || !x.one("tar-entry-sizes", st, lim, b, fileVia("closer,deb"), ins[i].desc) {
					return false
				}
			}
			return !r.Expired()
		})
}

// ---- two defects at once: one in the control member, one in the data member ----

type memberDefect struct {
	desc string
	m    *gen.ArmMember // nil: the member is absent
}

func (x *runner) doubleDefectScenario(r *mc.Run) {
	goodCtl, goodDat := tarOf("./control", controlText), tarOf("./usr/share/doc/a/x", "hello\n")
	mp := func(name string, data []byte) *gen.ArmMember { m := mem(name, data); return &m }
	gzCtl, gzDat := gz(goodCtl), gz(goodDat)
	ctlKinds := []memberDefect{
		{"control fine (stored)", mp("control.tar", goodCtl)},
		{"control fine (gzip)", mp("control.tar.gz", gzCtl)},
		{"control.tar.gz is not gzip", mp("control.tar.gz", goodCtl)},
		{"control.tar.gz empty", mp("control.tar.gz", []byte{})},
		{"control.tar.gz cut in half", mp("control.tar.gz", gzCtl[:len(gzCtl)/2])},
		{"control.tar without a control entry", mp("control.tar", tarOf("./md5sums", "x\n"))},
		{"control.tar is text", mp("control.tar", []byte("not a tar\n"))},
		{"control.tar empty", mp("control.tar", []byte{})},
		{"control paragraph with a bad Version", mp("control.tar", tarOf("./control", strings.Replace(controlText, "1.0-1", "-", 1)))},
		{"control paragraph without Package", mp("control.tar", tarOf("./control", "Version: 1\nArchitecture: all\n"))},
		{"control.bin (not a tar by name)", mp("control.bin", goodCtl)},
		{"control member absent", nil},
	}
	datKinds := []memberDefect{
		{"data fine (stored)", mp("data.tar", goodDat)},
		{"data fine (gzip)", mp("data.tar.gz", gzDat)},
		{"data.bin (not a tar by name)", mp("data.bin", goodDat)},
		{"data. (empty extension)", mp("data.", goodDat)},
		{"data.tar.gz is not gzip", mp("data.tar.gz", goodDat)},
		{"data.tar.gz empty", mp("data.tar.gz", []byte{})},
		{"data.tar.gz is 5 bytes of gzip", mp("data.tar.gz", gzDat[:5])},
		{"data.tar.gz.x (two extensions)", mp("data.tar.gz.x", gzDat)},
		{"data member absent", nil},
	}
	binKinds := []memberDefect{{"", mp("debian-binary", []byte("2.0\n"))}, {" + debian-binary 3.0", mp("debian-binary", []byte("3.0\n"))}}
	type din struct {
		desc string
		ms   []gen.ArmMember
	}
	var ins []din
	for _, bk := range binKinds {
		for _, c := range ctlKinds {
			for _, d := range datKinds {
				for order := 0; order < 2; order++ {
					ms := []gen.ArmMember{*bk.m}
					parts := []*gen.ArmMember{c.m, d.m}
					if order == 1 {
						parts = []*gen.ArmMember{d.m, c.m}
					}
					for _, p := range parts {
						if p != nil {
							ms = append(ms, *p)
						}
					}
					ins = append(ins, din{c.desc + " x " + d.desc + bk.desc + map[int]string{0: "", 1: " (data member first)"}[order], ms})
				}
			}
		}
	}
	const chunk = 8
	r.Scenario("double-defects", map[string]interface{}{"inputs": len(ins), "control_member": len(ctlKinds), "data_member": len(datKinds), "debian_binary": 2, "member_orders": 2,
		"compared": "result class, fields, members AND the error text, between a load with sorted and a load with reversed map orders (" + MapOrderNote + ")"},
		(len(ins)+chunk-1)/chunk, func(shard int, st *mc.Stats) bool {
			lim := limiter{}
			for i := shard * chunk; i < (shard+1)*chunk && i < len(ins); i++ {
				st.Transitions++
				if !x.one("double-defects", st, lim, gen.ArmBuild(ins[i].ms), "load+text", ins[i].desc) {
					return false
				}
			}
			return !r.Expired()
		})
}

// ---- several spellings of one field name, differing only in case ----

func (x *runner) fieldCaseScenario(r *mc.Run) {
	type cf struct {
		name string
		vals [3]string
	}
	fields := []cf{
		{"Package", [3]string{"a", "b", "c"}}, {"Version", [3]string{"1.0", "2.0", "3.0"}}, {"Architecture", [3]string{"all", "amd64", "i386"}},
		{"Maintainer", [3]string{"A <a@x>", "B <b@x>", "C <c@x>"}}, {"Installed-Size", [3]string{"1", "2", "3"}}, {"Multi-Arch", [3]string{"foreign", "same", "allowed"}},
		{"Depends", [3]string{"x", "y", "z"}}, {"Built-Using", [3]string{"x (= 1)", "y (= 2)", "z (= 3)"}}, {"Description", [3]string{"one", "two", "three"}},
	}
	spell := func(n string, k int) string {
		switch k {
		case 0:
			return strings.ToLower(n)
		case 1:
			return strings.ToUpper(n)
		case 2: // odd mix
			b := []byte(strings.ToLower(n))
			for i := 1; i < len(b); i += 2 {
				if b[i] >= 'a' && b[i] <= 'z' {
					b[i] -= 32
				}
			}
			return string(b)
		}
		return n // 3: the exact spelling
	}
	type ci struct{ desc, control string }
	var ins []ci
	for _, f := range fields {
		rest := func() []fieldKV {
			var out []fieldKV
			for _, b := range baseControl {
				if b.k != f.name {
					out = append(out, b)
				}
			}
			return out
		}
		// every ordered selection of 2 and 3 spellings out of {lower, UPPER, mixed, exact}, each with its own value
		var sel func(cur []int)
		sel = func(cur []int) {
			if len(cur) >= 2 {
				fs := rest()
				var d []string
				for i, k := range cur {
					fs = append(fs, fieldKV{spell(f.name, k), f.vals[i]})
					d = append(d, spell(f.name, k)+"="+f.vals[i])
				}
				ins = append(ins, ci{"control " + strings.Join(d, ", "), renderControl(fs)})
				// the variants in front of the other fields as well
				fs2 := append([]fieldKV{}, fs[len(fs)-len(cur):]...)
				ins = append(ins, ci{"control (first lines) " + strings.Join(d, ", "), renderControl(append(fs2, rest()...))})
			}
			if len(cur) == 3 {
				return
			}
			for k := 0; k < 4; k++ {
				used := false
				for _, c := range cur {
					used = used || c == k
				}
				if !used {
					sel(append(append([]int{}, cur...), k))
				}
			}
		}
		sel(nil)
	}
	const chunk = 16
	r.Scenario("field-name-case", map[string]interface{}{"inputs": len(ins), "fields": len(fields), "spellings": "lower, UPPER, mIxEd, exact: every ordered selection of 2 or 3, each spelling with its own value; at the end and at the start of the paragraph",
		"compared": "result class, every typed field of the decoded paragraph and the error text, between a load with sorted and a load with reversed map orders (" + MapOrderNote + ")"},
		(len(ins)+chunk-1)/chunk, func(shard int, st *mc.Stats) bool {
			lim := limiter{}
			for i := shard * chunk; i < (shard+1)*chunk && i < len(ins); i++ {
				st.Transitions++
				if !x.one("field-name-case", st, lim, gen.ArmBuild(debWith(ins[i].control, false)), "load+text", ins[i].desc) {
					return false
				}
			}
			return !r.Expired()
		})
}
