package c15

// Every member Next (or deb.Load's ArContent) hands out is also used the documented way for a member of an arbitrary
// ar archive: IsTarfile(), Tarfile(). Invariants only: IsTarfile agrees with the name rule of its documentation;
// Tarfile on a name that is not a tar is an error; otherwise it is an error or a reader (whatever it lists); no
// panic, it returns (hang guard), its closer can be called twice, and afterwards the member's own reader, rewound,
// still delivers what it delivered before. Members whose name asks for a third-party decoder (xz, bzip2, lzma,
// zstd) are not opened with hostile content - outside the claim - only their IsTarfile answer is checked.

import (
	"fmt"
	"io"
	"path/filepath"
	"strings"

	"pault.ag/go/debian/deb"

	"verifharness/gen"
	"verifharness/mc"
)

func thirdPartyExt(name string) bool {
	switch filepath.Ext(name) {
	case ".xz", ".bz2", ".lzma", ".zst":
		return true
	}
	return false
}

func tarProbe(b []byte, e *deb.ArEntry, m *memObs) {
	m.Reread = -1
	m.TarOut = "not called"
	if p, msg := mc.Guard(func() { m.IsTar = e.IsTarfile() }); p {
		m.TarOut = "panic: IsTarfile: " + msg
		return
	}
	if gen.ArmTarName(e.Name) && thirdPartyExt(e.Name) {
		return
	}
	if !gen.ArmTarName(e.Name) {
		// not a tar by name: the call is expected to refuse at once; no watchdog goroutine for this common case
		var err error
		if p, msg := mc.Guard(func() { _, _, err = e.Tarfile() }); p {
			m.TarOut = "panic: " + msg
			return
		}
		if err != nil {
			m.TarOut = "error"
			return
		}
	}
	out := "hang"
	fin := mc.WithTimeout(HangGuard, func() { // only stored / gzip / unknown-extension members get here
		res := ""
		if p, msg := mc.Guard(func() {
			if _, err := e.Data.Seek(0, io.SeekStart); err != nil {
				res = "seek error"
				return
			}
			tr, closer, err := e.Tarfile()
			if err != nil {
				res = "error"
				return
			}
			if !gen.ArmTarName(e.Name) {
				res = "no error"
			}
			if tr != nil {
				n, end := 0, "cut"
				for ; n < 4096; n++ {
					if _, err := tr.Next(); err != nil {
						end = "error"
						if err == io.EOF {
							end = "eof"
						}
						break
					}
					if _, err := io.Copy(io.Discard, io.LimitReader(tr, int64(len(b))+1)); err != nil {
						end = "error"
						break
					}
				}
				if res == "" {
					res = fmt.Sprintf("entries=%d then %s", n, end)
				}
			} else if res == "" {
				res = "nil reader without error"
			}
			closer.Close() // a nil closer panics here: reported
			closer.Close()
		}); p {
			res = "panic: " + msg
		}
		out = res
	})
	if !fin {
		m.TarOut = "hang"
		return
	}
	m.TarOut = out
	if strings.HasPrefix(out, "panic") {
		return
	}
	if p, msg := mc.Guard(func() {
		if _, err := e.Data.Seek(0, io.SeekStart); err != nil {
			return
		}
		n, _ := io.CopyN(io.Discard, e.Data, int64(len(b))+1)
		m.Reread = n
	}); p {
		m.TarOut = "panic: re-reading after Tarfile: " + msg
	}
}

func tarFindings(i int, m memObs, add func(finding)) {
	want := gen.ArmTarName(m.Name)
	if strings.HasPrefix(m.TarOut, "panic") {
		add(finding{"no-panic", "IsTarfile / Tarfile / its closer (twice) do not panic", fmt.Sprintf("member #%d %q: %s", i, m.Name, m.TarOut)})
		return
	}
	if m.IsTar != want {
		add(finding{"istarfile", fmt.Sprintf("member #%d %q: IsTarfile()=%v (\".tar\" or \".tar.<ext>\" suffix)", i, m.Name, want), fmt.Sprint(m.IsTar)})
	}
	switch {
	case m.TarOut == "hang":
		add(finding{"terminates", "Tarfile and listing the tar return", fmt.Sprintf("member #%d %q: not finished after %v", i, m.Name, HangGuard)})
	case m.TarOut == "no error":
		add(finding{"tarfile-non-tar-errors", fmt.Sprintf("member #%d %q is not a tar by name: Tarfile() returns an error", i, m.Name), "no error"})
	case m.TarOut == "nil reader without error":
		add(finding{"tarfile-non-tar-errors", "Tarfile returns a reader or an error", fmt.Sprintf("member #%d %q: (nil, closer, nil)", i, m.Name)})
	}
	if m.Reread >= 0 && m.Reread != m.Delivered {
		add(finding{"reader-delivers-size", fmt.Sprintf("member #%d %q: after Tarfile its Data, rewound, delivers the same %d bytes", i, m.Name, m.Delivered), fmt.Sprintf("%d bytes", m.Reread)})
	}
}
