//go:build verif

package c15

import "pault.ag/go/debian/verifhook"

func init() {
	MapOrderNote = "instrumented build: first load with every map scan of package deb in sorted order, second load with every scan reversed"
	WithMapOrder = func(second bool, f func()) {
		if !second {
			f()
			return
		}
		ctx := &verifhook.Ctx{MapOrder: func(site, n int) []int {
			p := make([]int, n)
			for i := range p {
				p[i] = n - 1 - i
			}
			return p
		}}
		verifhook.Bind(ctx)
		defer verifhook.Unbind()
		f()
	}
}
