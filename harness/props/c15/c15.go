// Package c15: the ar and .deb readers terminate and stay consistent on arbitrary bytes.
package c15

import (
	"bytes"
	"encoding/hex"
	"encoding/json"
	"fmt"
	"io"
	"sort"
	"strings"
	"sync/atomic"
	"time"

	"pault.ag/go/debian/deb"

	"verifharness/gen"
	"verifharness/mc"
	"verifharness/props/reg"
)

func init() { reg.Register(&reg.Prop{ID: "C15", Run: Run, Replay: Replay}) }

// HangGuard is the only wall-clock quantity in this check: a deb.Load that has not returned after this long is
// reported as not terminating (a normal Load takes well under a millisecond).
const HangGuard = 120 * time.Second

// ThirdPartyGuard: an input that sends a member through one of the third-party decoders (xz, lzma, zstd, bzip2) is
// given this long; running out of it is NOT a verdict (their speed and memory appetite on hostile streams is outside
// the claim): the execution is counted as "slow-third-party-decoder: no verdict" and the enumeration carries on.
const ThirdPartyGuard = 20 * time.Second

// guardFor chooses the watchdog for an input: stdlib-only decoding paths (stored, gzip) get HangGuard and a timeout is
// a violation of "terminates"; inputs naming a third-party encoding get ThirdPartyGuard and no verdict.
func guardFor(b []byte) (time.Duration, bool) {
	for _, ext := range []string{".xz", ".lzma", ".zst", ".bz2"} {
		if bytes.Contains(b, []byte(".tar"+ext)) {
			return ThirdPartyGuard, true
		}
	}
	return HangGuard, false
}

var slowThirdParty int64 // executions abandoned by ThirdPartyGuard (their goroutines may still run)

// In is the replayable input: the bytes, the ReaderAt end-of-input convention, and which entry point reads them.
type In struct {
	Hex  string // the input bytes (empty when Rep is set)
	Conv int    // 0: bytes.Reader; 1: a full read ending exactly at end of input returns (n, io.EOF)
	Via  string // "ar": LoadAr + Next driven by the harness; "load": deb.Load; "file:<close pattern>": deb.LoadFile (file.go)
	Desc string `json:",omitempty"` // how the generator derived the bytes (informational only)
	// Rep, when set, describes a LARGE input compactly: Prefix + Count x Unit + Suffix (hex each).
	Rep *RepSpec `json:",omitempty"`
}

// RepSpec is a run-length description of a large input (MiB of filler, 100 000 members).
type RepSpec struct {
	Prefix, Unit, Suffix string
	Count                int
}

// Bytes materialises the input.
func (in In) Bytes() ([]byte, error) {
	if in.Rep == nil {
		return hex.DecodeString(in.Hex)
	}
	p, e1 := hex.DecodeString(in.Rep.Prefix)
	u, e2 := hex.DecodeString(in.Rep.Unit)
	x, e3 := hex.DecodeString(in.Rep.Suffix)
	if e1 != nil || e2 != nil || e3 != nil || in.Rep.Count < 0 || int64(in.Rep.Count)*int64(len(u)) > 1<<30 {
		return nil, fmt.Errorf("bad Rep")
	}
	b := make([]byte, 0, len(p)+in.Rep.Count*len(u)+len(x))
	b = append(b, p...)
	if len(u) == 1 {
		b = b[:len(p)+in.Rep.Count]
		for i := len(p); i < len(b); i++ {
			b[i] = u[0]
		}
	} else {
		for i := 0; i < in.Rep.Count; i++ {
			b = append(b, u...)
		}
	}
	return append(b, x...), nil
}

// ---- input-side description (features): a strict reference walk over the bytes, independent of the library ----

// refWalk follows the member chain as the format defines it and names the first anomaly ("" = well-formed).
func refWalk(b []byte) (anomaly string, members int) {
	if len(b) < 8 || string(b[:8]) != gen.ArmGlobalMagic {
		return "global-magic-bad", 0
	}
	off := 8
	for off < len(b) {
		if off+60 > len(b) {
			return "header-truncated", members
		}
		h := b[off : off+60]
		m1, m2 := h[58] == '`', h[59] == '\n'
		switch {
		case !m1 && !m2:
			return "header-magic-both-bytes-wrong", members
		case !m1:
			return "header-magic-first-byte-wrong", members
		case !m2:
			return "header-magic-second-byte-wrong", members
		}
		st := strings.TrimSpace(string(h[48:58]))
		size := 0
		if st != "" {
			digits := st
			if digits[0] == '+' || digits[0] == '-' {
				digits = digits[1:]
			}
			ok := digits != ""
			for i := 0; i < len(digits); i++ {
				if digits[i] < '0' || digits[i] > '9' {
					ok = false
				}
			}
			if !ok {
				return "size-non-numeric", members
			}
			if st[0] == '-' {
				return "size-negative", members
			}
			for i := 0; i < len(digits); i++ {
				size = size*10 + int(digits[i]-'0')
			}
		}
		if off+60+size > len(b) {
			return "data-truncated", members
		}
		members++
		off += 60 + size + size%2
	}
	return "", members
}

func features(b []byte, conv int) []string {
	var f []string
	if a, _ := refWalk(b); a != "" {
		f = append(f, a)
	}
	if conv == 1 {
		f = append(f, "readerat-eof-with-full-read")
	}
	return f
}

// ---- observing one run ----

type memObs struct {
	Name      string
	Size      int64
	HdrOff    int64 // offset of the 60-byte header this member was parsed from (Data's base offset - 60)
	MagicOK   bool  // bytes [58,60) of that header are "`\n"
	Delivered int64 // bytes obtained by reading Data from the start to the end
	Note      string
	// direct use of the member as a tar (tarprobe.go)
	IsTar  bool   // what IsTarfile() says
	TarOut string // what Tarfile() did: "not called" | "error" | "no error" | "entries=N then eof|error|cut" | "panic: ..." | "hang"
	Reread int64  // bytes delivered by the member's Data when rewound and re-read after Tarfile (-1: not done)
}

func observe(b []byte, e *deb.ArEntry, rewind bool) (m memObs) {
	m.Name, m.Size = e.Name, e.Size
	if e.Data == nil {
		m.Note = "Data is nil"
		m.HdrOff = -1
		return
	}
	_, off, _ := e.Data.Outer()
	m.HdrOff = off - 60
	if m.HdrOff >= 0 && m.HdrOff+60 <= int64(len(b)) {
		m.MagicOK = b[m.HdrOff+58] == '`' && b[m.HdrOff+59] == '\n'
	}
	if rewind {
		// A member out of a loaded package: its Data may be OWNED by a decoder the library started (deb.Data reads the
		// data member through it, and the zstd decoder reads ahead in goroutines of its own). Moving that reader's
		// position from here would race with the decoder - the count obtained, and what the decoder sees, would depend
		// on timing. So the member is measured through ReadAt, which SectionReader serves without touching the position.
		buf := make([]byte, 8192)
		var off int64
		var err error
		for off <= int64(len(b)) {
			var n int
			n, err = e.Data.ReadAt(buf, off)
			off += int64(n)
			if err != nil {
				break
			}
			if n == 0 {
				err = io.ErrNoProgress
				break
			}
		}
		m.Delivered = off
		if err != io.EOF {
			m.Note = fmt.Sprintf("ReadAt ends with %v after %d bytes", err, off)
		}
		if !ownedByDecoder(e.Name) {
			tarProbe(b, e, &m)
		} else {
			m.Reread, m.TarOut = -1, "not called"
			m.IsTar = e.IsTarfile()
		}
		return
	}
	n, err := io.CopyN(io.Discard, e.Data, int64(len(b))+1)
	m.Delivered = n
	if err != io.EOF {
		m.Note = fmt.Sprintf("read ends with %v after %d bytes", err, n)
	}
	tarProbe(b, e, &m)
	return
}

// ownedByDecoder: in a loaded package the control.* and data.* members have been handed to Tarfile by the library;
// their Data is not probed with a second Tarfile / Seek from here (the ar-level scenarios do that on the same bytes).
func ownedByDecoder(name string) bool {
	return strings.HasPrefix(name, "control.") || strings.HasPrefix(name, "data.")
}

func descMem(ms []memObs) string {
	var parts []string
	for _, m := range ms {
		parts = append(parts, fmt.Sprintf("{%q size=%d hdr=%d magic=%v delivered=%d note=%q istar=%v tar=%q reread=%d}", m.Name, m.Size, m.HdrOff, m.MagicOK, m.Delivered, m.Note, m.IsTar, m.TarOut, m.Reread))
	}
	return strings.Join(parts, " ")
}

type arOutcome struct {
	Open string // ok | error | panic
	Mem  []memObs
	End  string // open-error | eof | error | nil-nil | no-progress | panic
	msg  string // error / panic text: reported, never compared
}

// Budget is the number of successful Next calls the statement allows for an input of n bytes.
func Budget(n int) int { return n/60 + 1 }

// driveAr opens b as an ar archive and iterates to the end, with the step budget of the statement.
func driveAr(b []byte, conv int) (o arOutcome) {
	var ar *deb.Ar
	var err error
	if p, msg := mc.Guard(func() { ar, err = deb.LoadAr(gen.ArmReaderAt(b, conv)) }); p {
		return arOutcome{Open: "panic", End: "panic", msg: msg}
	}
	if err != nil || ar == nil {
		return arOutcome{Open: "error", End: "open-error", msg: fmt.Sprint(err)}
	}
	o.Open = "ok"
	budget := Budget(len(b))
	for {
		var e *deb.ArEntry
		if p, msg := mc.Guard(func() { e, err = ar.Next() }); p {
			o.End, o.msg = "panic", msg
			return
		}
		if err != nil {
			if err == io.EOF {
				o.End = "eof"
			} else {
				o.End, o.msg = "error", err.Error()
			}
			return
		}
		if e == nil {
			o.End = "nil-nil"
			return
		}
		var m memObs
		if p, msg := mc.Guard(func() { m = observe(b, e, false) }); p {
			o.End, o.msg = "panic", "reading member data: "+msg
			return
		}
		o.Mem = append(o.Mem, m)
		if len(o.Mem) > budget {
			o.End = "no-progress"
			return
		}
	}
}

type loadOutcome struct {
	Res             string // ok | error | panic | hang
	CtlExt, DataExt string
	Pkg             string
	Mem             []memObs // ArContent, sorted by name
	msg             string
}

// ctlSummary renders every typed field of the decoded control paragraph (the Pkg component of the outcome): two loads
// of the same bytes must agree on all of them.
func ctlSummary(d *deb.Deb) string {
	c := &d.Control
	return fmt.Sprintf("%s|src=%s|ver=%s|arch=%s|maint=%s|isize=%d|ma=%s|dep=%s|rec=%s|sug=%s|brk=%s|rep=%s|bu=%s|sec=%s|prio=%s|home=%s|desc=%q",
		c.Package, c.Source, c.Version.String(), c.Architecture.String(), c.Maintainer, c.InstalledSize, c.MultiArch,
		c.Depends.String(), c.Recommends.String(), c.Suggests.String(), c.Breaks.String(), c.Replaces.String(), c.BuiltUsing.String(),
		c.Section, c.Priority, c.Homepage, c.Description)
}

var hangs int64 // deb.Load executions that did not return (their goroutines keep spinning)

// WithMapOrder runs f; on the instrumented build the SECOND load of every input runs with every map scan inside
// package deb in reversed order (sorted order for the first), so "the same bytes give the same outcome" is checked across
// two different legal iteration orders instead of twice the same one.
var WithMapOrder = func(second bool, f func()) { f() }

// MapOrderNote is what the evidence says about it.
var MapOrderNote = "plain build: both loads use the runtime's map iteration order"

func driveLoad(b []byte, conv int, second ...bool) loadOutcome {
	sec := len(second) > 0 && second[0]
	type res struct {
		o loadOutcome
	}
	r := &res{}
	guard, third := guardFor(b)
	fin := mc.WithTimeout(guard, func() {
		var d *deb.Deb
		var err error
		var p bool
		var msg string
		WithMapOrder(sec, func() { p, msg = mc.Guard(func() { d, err = deb.Load(gen.ArmReaderAt(b, conv), "x.deb") }) })
		if p {
			r.o = loadOutcome{Res: "panic", msg: msg}
			return
		}
		if err != nil || d == nil {
			r.o = loadOutcome{Res: "error", msg: fmt.Sprint(err)}
			return
		}
		o := loadOutcome{Res: "ok", CtlExt: d.ControlExt, DataExt: d.DataExt, Pkg: d.Control.Package}
		names := make([]string, 0, len(d.ArContent))
		for k := range d.ArContent {
			names = append(names, k)
		}
		sort.Strings(names)
		if p, msg := mc.Guard(func() {
			o.Pkg = ctlSummary(d)
			for _, k := range names {
				e := d.ArContent[k]
				if e == nil {
					o.Mem = append(o.Mem, memObs{Name: k, Note: "nil entry", HdrOff: -1})
					continue
				}
				o.Mem = append(o.Mem, observe(b, e, true))
			}
			d.Close()
		}); p {
			o = loadOutcome{Res: "panic", msg: "using the loaded package: " + msg}
		}
		r.o = o
	})
	if !fin {
		if third {
			atomic.AddInt64(&slowThirdParty, 1)
			return loadOutcome{Res: "slow"}
		}
		atomic.AddInt64(&hangs, 1)
		return loadOutcome{Res: "hang"}
	}
	return r.o
}

// ---- the oracle ----

type finding struct{ clause, want, got string }

func memberFindings(b []byte, ms []memObs, add func(finding)) {
	for i, m := range ms {
		if m.Note == "Data is nil" || m.Note == "nil entry" {
			add(finding{"reader-delivers-size", "every returned member has a reader", fmt.Sprintf("member #%d %q: %s", i, m.Name, m.Note)})
			continue
		}
		if !m.MagicOK {
			var at string
			if m.HdrOff >= 0 && m.HdrOff+60 <= int64(len(b)) {
				at = fmt.Sprintf("%q", b[m.HdrOff+58:m.HdrOff+60])
			} else {
				at = "outside the input"
			}
			add(finding{"header-magic", "a member is returned only from a header whose bytes [58,60) are \"`\\n\"",
				fmt.Sprintf("member #%d %q size=%d parsed from the header at offset %d whose magic bytes are %s", i, m.Name, m.Size, m.HdrOff, at)})
		}
		tarFindings(i, m, add)
		if m.Size < 0 {
			add(finding{"size-non-negative", "Size >= 0", fmt.Sprintf("member #%d %q (header at %d) has Size=%d", i, m.Name, m.HdrOff, m.Size)})
			continue
		}
		if m.Delivered != m.Size || m.Note != "" {
			add(finding{"reader-delivers-size", fmt.Sprintf("member #%d %q: Data delivers exactly Size=%d bytes", i, m.Name, m.Size),
				fmt.Sprintf("%d bytes delivered (input has %d bytes, data starts at %d) %s", m.Delivered, len(b), m.HdrOff+60, m.Note)})
		}
	}
}

func sameMem(a, b []memObs) bool {
	if len(a) != len(b) {
		return false
	}
	for i := range a {
		if a[i] != b[i] {
			return false
		}
	}
	return true
}

// evalAr runs the ar-level oracle on b; class is the outcome class (for the histogram).
func evalAr(b []byte, conv int) (fs []finding, class string) {
	seen := map[string]bool{}
	add := func(f finding) {
		if !seen[f.clause] {
			seen[f.clause] = true
			fs = append(fs, f)
		}
	}
	o := driveAr(b, conv)
	class = fmt.Sprintf("ar members=%d end=%s", len(o.Mem), o.End)
	switch o.End {
	case "panic":
		add(finding{"no-panic", "no panic", "panic: " + o.msg})
	case "nil-nil":
		add(finding{"ends-in-eof-or-error", "Next returns a member, io.EOF or an error", "(nil, nil)"})
	case "no-progress":
		var offs []string
		for _, m := range o.Mem {
			offs = append(offs, fmt.Sprint(m.HdrOff))
		}
		if len(offs) > 6 {
			offs = append(offs[:6], "...")
		}
		add(finding{"progress", fmt.Sprintf("at most floor(%d/60)+1 = %d members, then io.EOF or an error", len(b), Budget(len(b))),
			fmt.Sprintf("Next call %d still returns a member; header offsets used: %s", len(o.Mem), strings.Join(offs, ","))})
	}
	memberFindings(b, o.Mem, add)
	o2 := driveAr(b, conv)
	if o2.Open != o.Open || o2.End != o.End || !sameMem(o.Mem, o2.Mem) {
		add(finding{"deterministic", fmt.Sprintf("same outcome twice: members=%d end=%s", len(o.Mem), o.End), fmt.Sprintf("second run: members=%d end=%s | first: %s | second: %s", len(o2.Mem), o2.End, descMem(o.Mem), descMem(o2.Mem))})
	}
	return
}

// evalLoad runs the deb.Load oracle on b.
func evalLoad(b []byte, conv int) (fs []finding, class string) { return evalLoadText(b, conv, false) }

// evalLoadText: with text=true the error TEXT of the two loads (the second one under reversed map orders on the
// instrumented build) must agree as well. Used only for inputs whose ar layer is intact: there the message says which
// defect of the package was met, and that must not depend on the order a map happens to be walked in. (For broken ar
// headers parseArEntry names whichever bad column its map yields first - known, harmless, and not compared.)
func evalLoadText(b []byte, conv int, text bool) (fs []finding, class string) {
	seen := map[string]bool{}
	add := func(f finding) {
		if !seen[f.clause] {
			seen[f.clause] = true
			fs = append(fs, f)
		}
	}
	o := driveLoad(b, conv)
	class = "load " + o.Res
	switch o.Res {
	case "slow":
		return nil, "load slow-third-party-decoder: no verdict"
	case "hang":
		add(finding{"terminates", "deb.Load returns", fmt.Sprintf("deb.Load has not returned after %v on a %d-byte input", HangGuard, len(b))})
		return
	case "panic":
		add(finding{"no-panic", "no panic", "panic: " + o.msg})
	}
	memberFindings(b, o.Mem, add)
	o2 := driveLoad(b, conv, true)
	if o2.Res == "slow" {
		return fs, "load slow-third-party-decoder: no verdict"
	}
	if o2.Res == "hang" {
		add(finding{"terminates", "deb.Load returns", "second deb.Load of the same bytes has not returned after " + HangGuard.String()})
		return
	}
	if o2.Res != o.Res || o2.CtlExt != o.CtlExt || o2.DataExt != o.DataExt || o2.Pkg != o.Pkg || !sameMem(o.Mem, o2.Mem) {
		add(finding{"deterministic", fmt.Sprintf("same outcome twice: %s control%s data%s package=%q members=%d", o.Res, o.CtlExt, o.DataExt, o.Pkg, len(o.Mem)),
			fmt.Sprintf("second load: %s control%s data%s package=%q members=%d | first: %s | second: %s", o2.Res, o2.CtlExt, o2.DataExt, o2.Pkg, len(o2.Mem), descMem(o.Mem), descMem(o2.Mem))})
	} else if text && o.Res == "error" && o.msg != o2.msg {
		add(finding{"deterministic", "same error on every load of the same bytes: " + o.msg, "second load (" + MapOrderNote + "): " + o2.msg})
	}
	return
}

func eval(b []byte, conv int, via string) ([]finding, string) {
	if isFileVia(via) {
		return evalFile(b, strings.TrimPrefix(via, "file:"))
	}
	if via == "load" {
		return evalLoad(b, conv)
	}
	if via == "load+text" {
		return evalLoadText(b, conv, true)
	}
	return evalAr(b, conv)
}

func violations(scen string, b []byte, conv int, via, desc string, fs []finding) []*mc.Violation {
	return violationsIn(scen, In{Hex: hex.EncodeToString(b), Conv: conv, Via: via, Desc: desc}, b, fs)
}

func violationsIn(scen string, in In, b []byte, fs []finding) []*mc.Violation {
	var out []*mc.Violation
	conv := in.Conv
	for _, f := range fs {
		out = append(out, mc.V(scen, f.clause, in, f.want, f.got, features(b, conv)...))
	}
	return out
}

// check is the oracle for one input.
func check(scen string, in In) []*mc.Violation {
	b, err := in.Bytes()
	if err != nil {
		return nil
	}
	if in.Via != "load" && in.Via != "load+text" && !isFileVia(in.Via) {
		in.Via = "ar"
	}
	fs, _ := eval(b, in.Conv, in.Via)
	return violationsIn(scen, in, b, fs)
}

func Replay(scenario string, raw json.RawMessage) []*mc.Violation {
	var in In
	if err := mc.UnmarshalInput(raw, &in); err != nil {
		return nil
	}
	// a fatal runtime error would take the replaying process with it: probe in a process of its own first
	if died, how := probeOne(in); died {
		b, _ := in.Bytes()
		return []*mc.Violation{mc.V(scenario, "no-panic", in, "no panic (and no fatal runtime error)", "the process executing this input died: "+how, features(b, in.Conv)...)}
	}
	return check(scenario, in)
}
