package c15

// Process isolation. Some failures of the code under test cannot be caught inside the process: a Go "fatal error"
// (out of memory after make([]byte, <size taken from the input>), stack exhaustion, concurrent map writes) kills the
// whole program, recover() never sees it. The check therefore runs as supervisor + child:
//
//   - the supervisor (the process ./check started) re-executes itself with VERIF_C15_JOURNAL=<file>; the child runs
//     the ordinary enumeration, writes evidence / artefacts / VIOLATION lines itself, and the supervisor exits with the
//     child's status;
//   - before every execution the child copies the input into its worker's slot of the journal (a shared file mapping,
//     so it survives the death of the process) and clears the slot afterwards;
//   - if the child dies abnormally, the supervisor re-runs every input that was in flight, each in its own process
//     (VERIF_C15_ONE=<input file>); those that kill their process again are reported as violations of "no-panic".
//
// Replay probes the input in a separate process first, for the same reason.

import (
	"bytes"
	"encoding/binary"
	"encoding/hex"
	"encoding/json"
	"fmt"
	"os"
	"os/exec"
	"strings"
	"sync"
	"sync/atomic"
	"syscall"
	"time"

	"verifharness/mc"
)

const (
	envJournal = "VERIF_C15_JOURNAL"
	envOne     = "VERIF_C15_ONE"
	envNoIso   = "VERIF_C15_NO_ISOLATION"
	slots      = 64
	slotSize   = 64 << 10
)

func init() {
	if p := os.Getenv(envOne); p != "" {
		// single-input mode: execute the oracle on one input and leave; a fatal error ends the process before that
		raw, err := os.ReadFile(p)
		if err != nil {
			os.Exit(3)
		}
		var in In
		if mc.UnmarshalInput(raw, &in) != nil {
			os.Exit(3)
		}
		check("one", in)
		os.Exit(0)
	}
}

var (
	journal  []byte // nil unless this process is the child
	slotMu   sync.Mutex
	slotOf   = map[*mc.Stats]int{}
	nextSlot int32
)

func openJournal() {
	p := os.Getenv(envJournal)
	if p == "" {
		return
	}
	f, err := os.OpenFile(p, os.O_RDWR, 0)
	if err != nil {
		return
	}
	defer f.Close()
	m, err := syscall.Mmap(int(f.Fd()), 0, slots*slotSize, syscall.PROT_READ|syscall.PROT_WRITE, syscall.MAP_SHARED)
	if err == nil {
		journal = m
	}
}

// journalBegin records the input a worker is about to execute; journalEnd clears the record.
func journalBegin(st *mc.Stats, b []byte, conv int, via string) int {
	if journal == nil {
		return -1
	}
	slotMu.Lock()
	s, ok := slotOf[st]
	if !ok {
		s = int(atomic.AddInt32(&nextSlot, 1)-1) % slots
		slotOf[st] = s
	}
	slotMu.Unlock()
	o := s * slotSize
	n := len(b)
	if n > slotSize-16 {
		n = slotSize - 16
	}
	journal[o+4] = byte(conv)
	journal[o+5] = 0
	journal[o+6] = 0
	if via == "load" {
		journal[o+5] = 1
	} else if via == "load+text" {
		journal[o+5] = 100
	} else if isFileVia(via) {
		for i, p := range ClosePatterns {
			if fileVia(p) == via {
				journal[o+5] = byte(2 + i)
			}
		}
	}
	copy(journal[o+8:], b[:n])
	binary.LittleEndian.PutUint32(journal[o:], uint32(n)+1) // length+1; 0 = slot idle
	return s
}

// journalBeginIn records a large input by its recipe (JSON of In) instead of its bytes.
func journalBeginIn(st *mc.Stats, in In) int {
	if journal == nil {
		return -1
	}
	raw, err := json.Marshal(in)
	if err != nil || len(raw) > slotSize-16 {
		return -1
	}
	s := journalBegin(st, raw, in.Conv, in.Via)
	journal[s*slotSize+6] = 1
	return s
}

func journalEnd(s int) {
	if s >= 0 {
		binary.LittleEndian.PutUint32(journal[s*slotSize:], 0)
	}
}

func inFlight(j []byte) []In {
	var out []In
	for s := 0; s < slots; s++ {
		o := s * slotSize
		n := int(binary.LittleEndian.Uint32(j[o:]))
		if n == 0 || n-1 > slotSize-16 {
			continue
		}
		via := "ar"
		if j[o+5] == 1 {
			via = "load"
		} else if j[o+5] == 100 {
			via = "load+text"
		} else if k := int(j[o+5]); k >= 2 && k-2 < len(ClosePatterns) {
			via = fileVia(ClosePatterns[k-2])
		}
		if j[o+6] == 1 { // a recipe
			var in In
			if json.Unmarshal(j[o+8:o+8+n-1], &in) == nil {
				in.Desc += " (in flight when the checking process died)"
				out = append(out, in)
			}
			continue
		}
		out = append(out, In{Hex: hex.EncodeToString(j[o+8 : o+8+n-1]), Conv: int(j[o+4]), Via: via, Desc: "in flight when the checking process died (recovered from the journal)"})
	}
	return out
}

func abnormal(err error, stderr string) (bool, string) {
	if err == nil {
		return false, ""
	}
	for _, mark := range []string{"fatal error: ", "panic: ", "runtime: "} {
		if i := strings.Index(stderr, mark); i >= 0 {
			line := stderr[i:]
			if k := strings.IndexByte(line, '\n'); k >= 0 {
				line = line[:k]
			}
			return true, line
		}
	}
	if ee, ok := err.(*exec.ExitError); ok && !ee.Exited() {
		return true, "killed: " + ee.String()
	}
	return false, ""
}

// probeOne runs the oracle on one input in a process of its own and reports whether that process died abnormally.
func probeOne(in In) (died bool, how string) {
	f, err := os.CreateTemp("", "c15one*.json")
	if err != nil {
		return false, ""
	}
	defer os.Remove(f.Name())
	raw, _ := json.Marshal(in)
	f.Write(raw)
	f.Close()
	cmd := exec.Command(os.Args[0])
	cmd.Env = append(os.Environ(), envOne+"="+f.Name())
	var eb bytes.Buffer
	cmd.Stderr = &eb
	done := make(chan error, 1)
	if cmd.Start() != nil {
		return false, ""
	}
	go func() { done <- cmd.Wait() }()
	select {
	case err = <-done:
	case <-time.After(3 * HangGuard):
		cmd.Process.Kill()
		<-done
		return false, "" // non-termination is the business of the in-process guard
	}
	return abnormal(err, eb.String())
}

// supervise runs the whole check in a child process. It returns true when the run has been dealt with (the caller
// must then not enumerate anything itself).
func supervise(r *mc.Run) bool {
	if os.Getenv(envJournal) != "" || os.Getenv(envNoIso) != "" {
		openJournal()
		return false
	}
	jdir := ""
	if fi, err := os.Stat("/dev/shm"); err == nil && fi.IsDir() {
		jdir = "/dev/shm" // memory-backed: the journal is rewritten a million times
	}
	jf, err := os.CreateTemp(jdir, "c15journal")
	if err != nil {
		jf, err = os.CreateTemp("", "c15journal")
	}
	if err != nil {
		return false
	}
	defer os.Remove(jf.Name())
	if jf.Truncate(slots*slotSize) != nil {
		jf.Close()
		return false
	}
	jf.Close()
	ef, err := os.CreateTemp("", "c15stderr")
	if err != nil {
		return false
	}
	defer os.Remove(ef.Name())
	cmd := exec.Command(os.Args[0], os.Args[1:]...)
	cmd.Env = append(os.Environ(), envJournal+"="+jf.Name())
	cmd.Stdout = os.Stdout
	cmd.Stderr = ef
	runErr := cmd.Run()
	ef.Close()
	eb, _ := os.ReadFile(ef.Name())
	died, how := abnormal(runErr, string(eb))
	if !died {
		os.Stderr.Write(eb)
		code := 0
		if ee, ok := runErr.(*exec.ExitError); ok {
			code = ee.ExitCode()
		} else if runErr != nil {
			code = 2
		}
		os.Remove(jf.Name())
		os.Remove(ef.Name())
		os.Exit(code) // the child has written evidence, artefacts and the summary
	}
	// keep the child's progress lines, drop the goroutine dump
	for _, l := range strings.Split(string(eb), "\n") {
		if strings.HasPrefix(l, "[") {
			fmt.Fprintln(os.Stderr, l)
		}
	}
	fmt.Fprintln(os.Stderr, "C15: the checking process died ("+how+"); re-running the inputs that were in flight, one process each")
	j, _ := os.ReadFile(jf.Name())
	var cands []In
	if len(j) == slots*slotSize {
		cands = inFlight(j)
	}
	type culprit struct {
		in  In
		how string
	}
	var found []culprit
	for _, in := range cands {
		if d, h := probeOne(in); d {
			found = append(found, culprit{in, h})
		}
	}
	if len(found) == 0 {
		tail := string(eb)
		if len(tail) > 600 {
			tail = tail[:600]
		}
		r.HarnessError("the checking process died (%s) and none of the %d inputs in flight reproduces it on its own: %s", how, len(cands), tail)
		return true
	}
	r.Rule = "the enumeration was cut short: the process running it died; the inputs in flight were re-run one process each"
	r.Extra["child_process_died"] = how
	r.Scenario("process-fatal-error", map[string]interface{}{"inputs_in_flight": len(cands), "note": "the enumeration stopped when the checking process died; exhaustive:false"},
		1, func(_ int, st *mc.Stats) bool {
			for _, c := range found {
				b, _ := c.in.Bytes()
				st.Evals++
				st.Class("process died: " + c.how)
				st.Viol = append(st.Viol, mc.V("process-fatal-error", "no-panic", c.in, "no panic (and no fatal runtime error)",
					"the process executing this input died: "+c.how, features(b, c.in.Conv)...))
			}
			return false
		})
	return true
}
