package c15

// deb.LoadFile: the same bytes written to a scratch file and opened by path, then released through the closer that
// LoadFile returns and / or Deb.Close, in every order of one or two calls. Clauses: no panic anywhere (opening,
// reading the members, every close call), LoadFile returns (hang guard), and the package LoadFile delivers equals the
// one deb.Load delivers for the same bytes (result class, extensions, package name, members with sizes and delivered
// bytes). What a close call returns (nil or an error such as "file already closed") is not judged.

import (
	"fmt"
	"os"
	"path/filepath"
	"sort"
	"strings"
	"sync"
	"sync/atomic"

	"pault.ag/go/debian/deb"

	"verifharness/mc"
)

// ClosePatterns is the menu of release sequences ("closer" = the func LoadFile returns, "deb" = Deb.Close).
var ClosePatterns = []string{"closer", "deb", "closer,closer", "deb,deb", "closer,deb", "deb,closer"}

func fileVia(p string) string { return "file:" + p }

func isFileVia(via string) bool { return strings.HasPrefix(via, "file:") }

// scratch directories: during Run a small pool is reused (one per concurrently running worker) and removed by
// removeScratchDirs at the end of the scenario; outside Run (replay, single-input mode) each call makes and removes
// its own.
var scratch struct {
	sync.Mutex
	pooled    bool
	free, all []string
}

func acquireDir() (string, error) {
	scratch.Lock()
	defer scratch.Unlock()
	if n := len(scratch.free); n > 0 {
		d := scratch.free[n-1]
		scratch.free = scratch.free[:n-1]
		return d, nil
	}
	d, err := os.MkdirTemp("", "c15file")
	if err == nil && scratch.pooled {
		scratch.all = append(scratch.all, d)
	}
	return d, err
}

func releaseDir(d string) {
	scratch.Lock()
	defer scratch.Unlock()
	if !scratch.pooled {
		os.RemoveAll(d)
		return
	}
	scratch.free = append(scratch.free, d)
}

func poolScratchDirs() {
	scratch.Lock()
	scratch.pooled = true
	scratch.Unlock()
}

func removeScratchDirs() {
	scratch.Lock()
	defer scratch.Unlock()
	for _, d := range scratch.all {
		os.RemoveAll(d)
	}
	scratch.pooled, scratch.free, scratch.all = false, nil, nil
}

type fileOutcome struct {
	loadOutcome
	closes []string // per close call: "ok" | "error" | "panic: ..."
}

func driveFile(b []byte, pattern string) fileOutcome {
	var out fileOutcome
	dir, err := acquireDir()
	if err != nil {
		out.Res, out.msg = "scratch-error", err.Error()
		return out
	}
	defer releaseDir(dir)
	path := filepath.Join(dir, "x.deb")
	if err := os.WriteFile(path, b, 0o600); err != nil {
		out.Res, out.msg = "scratch-error", err.Error()
		return out
	}
	r := &fileOutcome{}
	guard, third := guardFor(b)
	fin := mc.WithTimeout(guard, func() {
		var d *deb.Deb
		var closer deb.Closer
		var err error
		if p, msg := mc.Guard(func() { d, closer, err = deb.LoadFile(path) }); p {
			r.Res, r.msg = "panic", msg
			return
		}
		if err != nil || d == nil {
			r.Res, r.msg = "error", fmt.Sprint(err)
			return
		}
		o := loadOutcome{Res: "ok", CtlExt: d.ControlExt, DataExt: d.DataExt, Pkg: d.Control.Package}
		names := make([]string, 0, len(d.ArContent))
		for k := range d.ArContent {
			names = append(names, k)
		}
		sort.Strings(names)
		if p, msg := mc.Guard(func() {
			o.Pkg = ctlSummary(d)
			for _, k := range names {
				e := d.ArContent[k]
				if e == nil {
					o.Mem = append(o.Mem, memObs{Name: k, Note: "nil entry", HdrOff: -1})
					continue
				}
				o.Mem = append(o.Mem, observe(b, e, true))
			}
		}); p {
			o = loadOutcome{Res: "panic", msg: "using the loaded package: " + msg}
		}
		r.loadOutcome = o
		for _, c := range strings.Split(pattern, ",") {
			var cerr error
			p, msg := mc.Guard(func() {
				switch c {
				case "closer":
					if closer == nil {
						panic("LoadFile returned a nil Closer func together with a package")
					}
					cerr = closer()
				case "deb":
					cerr = d.Close()
				}
			})
			switch {
			case p:
				r.closes = append(r.closes, "panic: "+msg)
			case cerr != nil:
				r.closes = append(r.closes, "error")
			default:
				r.closes = append(r.closes, "ok")
			}
		}
	})
	if !fin {
		if third {
			atomic.AddInt64(&slowThirdParty, 1)
			return fileOutcome{loadOutcome: loadOutcome{Res: "slow"}}
		}
		atomic.AddInt64(&hangs, 1)
		return fileOutcome{loadOutcome: loadOutcome{Res: "hang"}}
	}
	return *r
}

func evalFile(b []byte, pattern string) (fs []finding, class string) {
	seen := map[string]bool{}
	add := func(f finding) {
		if !seen[f.clause] {
			seen[f.clause] = true
			fs = append(fs, f)
		}
	}
	o := driveFile(b, pattern)
	class = "loadfile " + o.Res
	switch o.Res {
	case "scratch-error":
		return nil, "loadfile not run: " + o.msg
	case "slow":
		return nil, "loadfile slow-third-party-decoder: no verdict"
	case "hang":
		add(finding{"terminates", "deb.LoadFile returns", fmt.Sprintf("deb.LoadFile has not returned after %v on a %d-byte file", HangGuard, len(b))})
		return
	case "panic":
		add(finding{"no-panic", "no panic", "panic: " + o.msg})
	}
	for i, c := range o.closes {
		if strings.HasPrefix(c, "panic") {
			add(finding{"no-panic", "releasing the package (" + pattern + ") does not panic", fmt.Sprintf("close call #%d of %q: %s", i+1, pattern, c)})
		}
	}
	if o.Res == "ok" {
		class += " closes=" + strings.Join(func() []string {
			var s []string
			for _, c := range o.closes {
				if strings.HasPrefix(c, "panic") {
					c = "panic"
				}
				s = append(s, c)
			}
			return s
		}(), ",")
	}
	// same package as deb.Load on the same bytes
	l := driveLoad(b, 0)
	if l.Res == "slow" {
		return fs, "loadfile slow-third-party-decoder: no verdict"
	}
	if l.Res == "hang" {
		return // reported by the load scenarios
	}
	if (o.Res == "ok" || o.Res == "error") && (l.Res == "ok" || l.Res == "error") {
		if o.Res != l.Res || o.CtlExt != l.CtlExt || o.DataExt != l.DataExt || o.Pkg != l.Pkg || !sameMem(o.Mem, l.Mem) {
			add(finding{"loadfile-same-as-load", fmt.Sprintf("deb.Load: %s control%s data%s package=%q members=%d", l.Res, l.CtlExt, l.DataExt, l.Pkg, len(l.Mem)),
				fmt.Sprintf("deb.LoadFile: %s control%s data%s package=%q members=%d | Load members: %s | LoadFile members: %s", o.Res, o.CtlExt, o.DataExt, o.Pkg, len(o.Mem), descMem(l.Mem), descMem(o.Mem))})
		}
	}
	return
}
