package c15

import (
	"archive/tar"
	"bytes"
	"compress/gzip"
	"fmt"
	"os"
	"runtime/pprof"
	"sort"
	"strconv"
	"strings"
	"sync"
	"sync/atomic"
	"time"

	"verifharness/gen"
	"verifharness/mc"
)

// ---- base archives ----

func mem(name string, data []byte) gen.ArmMember {
	return gen.ArmMember{Name: name, TS: "1577836800", UID: "0", GID: "0", Mode: "100644", Data: data}
}

func tarOf(name, body string) []byte {
	var b bytes.Buffer
	w := tar.NewWriter(&b)
	w.WriteHeader(&tar.Header{Name: name, Mode: 0o644, Size: int64(len(body)), ModTime: time.Unix(1577836800, 0), Typeflag: tar.TypeReg, Format: tar.FormatGNU})
	w.Write([]byte(body))
	w.Close()
	return b.Bytes()
}

func gz(raw []byte) []byte {
	var b bytes.Buffer
	w, _ := gzip.NewWriterLevel(&b, gzip.BestCompression)
	w.Write(raw)
	w.Close()
	return b.Bytes()
}

const controlText = "Package: a\nVersion: 1.0-1\nArchitecture: all\nMaintainer: M <m@example.org>\nDescription: d\n"

type base struct {
	name string
	ms   []gen.ArmMember
	deb  bool
}

func debBase(ctlGz, dataGz bool) base {
	ctl, dat := tarOf("./control", controlText), tarOf("./usr/share/doc/a/x", "hello\n")
	cn, dn := "control.tar", "data.tar"
	nm := "deb-stored"
	if ctlGz {
		ctl, cn = gz(ctl), cn+".gz"
		nm = "deb-ctlgz"
	}
	if dataGz {
		dat, dn = gz(dat), dn+".gz"
		if ctlGz {
			nm = "deb-gz"
		} else {
			nm = "deb-datagz"
		}
	}
	return base{nm, []gen.ArmMember{mem("debian-binary", []byte("2.0\n")), mem(cn, ctl), mem(dn, dat)}, true}
}

func arBases() []base {
	return []base{
		{"ar2", []gen.ArmMember{mem("debian-binary", []byte("2.0\n")), mem("data", []byte("hello"))}, false},
		{"ar3", []gen.ArmMember{mem("a", []byte{}), mem("b/", []byte("ab`\nc")), mem("c", []byte("`\n"))}, false},
	}
}

// debWideSet bounds the wide product on the .deb bases, whose sets also go through deb.Load: deb-gz takes every single
// corruption and every pair that involves a name column (name x name in both orders, name x any aligned size /
// timestamp / uid / gid / mode / magic); the 4 KiB bases deb-stored and deb-pre (the latter exists for its EMPTY first
// member) every single and name x name over all member pairs. The small bases ar2/ar3 take the full product.
func debWideSet(pre bool, cs []corr) bool {
	if len(cs) == 1 {
		return true
	}
	if len(cs) != 2 {
		return false
	}
	if pre {
		return cs[0].Col == "name" && cs[1].Col == "name"
	}
	return cs[0].Col == "name" || cs[1].Col == "name"
}

// debPre is deb-stored with an EMPTY member in front (an earlier member without data, e.g. for an empty name table).
func debPre() base {
	b := debBase(false, false)
	return base{"deb-pre", append([]gen.ArmMember{mem("_pre", []byte{})}, b.ms...), true}
}

func debBases() []base {
	return []base{debBase(false, false), debBase(true, true), debBase(true, false), debBase(false, true)}
}

// ---- column corruptions ----

type corr struct {
	M   int    // member index
	Col string // name | ts | uid | gid | size | magic
	Val string
}

func (c corr) String() string { return fmt.Sprintf("m%d.%s=%q", c.M, c.Col, c.Val) }

var cols = []string{"name", "ts", "uid", "gid", "size", "magic"}

// wideCols adds the mode column (the library keeps it as text; a reader that starts parsing it must not break).
var wideCols = []string{"name", "ts", "uid", "gid", "mode", "size", "magic"}

var colWidth = map[string]int{"name": 16, "ts": 12, "uid": 6, "gid": 6, "mode": 8, "size": 10}

func isDigits(s string) bool {
	if s == "" {
		return false
	}
	for i := 0; i < len(s); i++ {
		if s[i] < '0' || s[i] > '9' {
			return false
		}
	}
	return true
}

// alignments: how a value can sit in its column. L left-aligned (as every ar writer does), R right-aligned,
// C one leading blank, T leading tab (strings.TrimSpace removes it like a blank), Z leading zeros (after the sign,
// if any), P explicit '+' on an unsigned value.
var alignments = []string{"L", "R", "C", "T", "Z", "P"}

func align(v, a string, w int) (string, bool) {
	var out string
	switch a {
	case "L":
		out = v
	case "R":
		if len(v) >= w {
			return "", false
		}
		out = strings.Repeat(" ", w-len(v)) + v
	case "C":
		out = " " + v
	case "T":
		out = "\t" + v
	case "Z":
		switch {
		case isDigits(v):
			out = "00" + v
		case len(v) > 1 && (v[0] == '-' || v[0] == '+') && isDigits(v[1:]):
			out = v[:1] + "0" + v[1:]
		default:
			return "", false
		}
	case "P":
		if !isDigits(v) {
			return "", false
		}
		out = "+" + v
	}
	if len(out) > w || v == "" {
		return "", false
	}
	return out, true
}

// alignedAll returns every applicable alignment of every value.
func alignedAll(vals []string, w int) []string {
	var out []string
	for _, v := range vals {
		for _, a := range alignments {
			if t, ok := align(v, a, w); ok {
				out = append(out, t)
			}
		}
	}
	return out
}

func dedupExcept(raw []string, except string) []string {
	var out []string
	seen := map[string]bool{except: true}
	for _, v := range raw {
		if !seen[v] {
			seen[v] = true
			out = append(out, v)
		}
	}
	return out
}

// ---- alphabet audit: literals a change introduced into the code under test (empty on the unchanged tree) ----

// auditNums: new integers n (with n-1, n+1) and, read as a bit width, 2^n-1, 2^n, 2^n+1 - as decimal texts that
// fit a column of the given width.
func auditNums(width int) []string {
	var out []string
	add := func(v int64) {
		if t := strconv.FormatInt(v, 10); len(t) <= width {
			out = append(out, t)
		}
	}
	for _, v := range gen.AuditInts(0, 1<<62, 12) {
		add(v)
	}
	for _, n := range gen.AuditInts(2, 62, 9) {
		add(1<<uint(n) - 1)
		add(1 << uint(n))
		add(1<<uint(n) + 1)
	}
	return dedupExcept(out, "\x01never")
}

// auditTexts: new string literals that fit the column, as they are.
func auditTexts(width int) []string {
	return gen.AuditStrings(func(t string) bool { return len(t) <= width }, 6)
}

// auditNames: new strings as member names, and as prefix / suffix of a name.
func auditNames() []string {
	var out []string
	for _, t := range gen.AuditStrings(func(t string) bool { return len(t) <= 16 }, 8) {
		out = append(out, t)
		for _, v := range []string{t + "x", "x" + t, t + "/", t + ".tar"} {
			if len(v) <= 16 {
				out = append(out, v)
			}
		}
	}
	return dedupExcept(out, "\x01never")
}

func oneByte(t string) bool { return len(t) == 1 }

// sizeTemplates lists the size-column texts as functions of the member's true size ("T", "T+1", "T-1" are
// resolved per member). core = the left-aligned value classes; wide = every class in every alignment.
func sizeTemplates(wide bool) []string {
	core := []string{"", "T+1", "T-1", "0", "-1", "-2", "-59", "-60", "-61", "-120", "+5", "9999999999", "0x10", "1e3", "abc", " 7 "}
	if !wide {
		return core
	}
	out := append([]string{}, core...)
	for _, v := range []string{"T", "T+1", "T-1", "0", "7", "-1", "-2", "-4", "-59", "-60", "-61", "-120", "999999999", "0x10", "1e3", "abc"} {
		for _, a := range alignments[1:] {
			out = append(out, v+"|"+a)
		}
	}
	out = append(out, auditNums(10)...)
	out = append(out, auditTexts(10)...)
	return out
}

// renderSize resolves a template for a member of true size T; ok=false when the alignment does not apply.
func renderSize(tmpl string, T int) (string, bool) {
	v, a := tmpl, "L"
	if i := strings.LastIndexByte(tmpl, '|'); i >= 0 && len(tmpl)-i == 2 && strings.Contains("RCTZP", tmpl[i+1:]) {
		v, a = tmpl[:i], tmpl[i+1:]
	}
	switch v {
	case "T":
		v = strconv.Itoa(T)
	case "T+1":
		v = strconv.Itoa(T + 1)
	case "T-1":
		v = strconv.Itoa(T - 1)
	}
	if a == "L" {
		return v, true
	}
	return align(v, a, 10)
}

func colValues(col string, trueSize int, wide bool) []string {
	var raw []string
	switch col {
	case "size":
		for _, t := range sizeTemplates(wide) {
			if v, ok := renderSize(t, trueSize); ok {
				raw = append(raw, v)
			}
		}
		return dedupExcept(raw, strconv.Itoa(trueSize))
	case "ts":
		raw = []string{"", "-1", "x", "999999999999"}
	case "uid", "gid":
		raw = []string{"", "-1", "x", "999999"}
	case "mode":
		if !wide {
			return nil
		}
		raw = append([]string{"", "x", "77777777"}, alignedAll([]string{"-1", "644"}, 8)...)
		return dedupExcept(append(append(raw, auditNums(8)...), auditTexts(8)...), "100644")
	case "name":
		raw = []string{"", "/", "0123456789abcdef", strings.Repeat("\x00", 16)}
		if wide {
			raw = append(raw,
				// GNU / SysV: long-name table, references into it, symbol tables
				"//", "/0", "/3", "/35", "/99999999999999", "/123456789012345", "/-1", "/x", "/0/", " //", "/SYM64/", "__.SYMDEF", "__.SYMDEF SORTED",
				// BSD: the name is the first <len> bytes of the data
				"#1/0", "#1/3", "#1/20", "#1/99999999999", "#1/-1", "#1/x",
				// tar-shaped and nearly tar-shaped names (IsTarfile / Tarfile are called on every member)
				"a.tar", "a.tar.gz", "a.tar.", ".tar", "a.tar.gz.x", "x.tarball", "a.tar.zst", "a.tar.g/z", "a.tar/",
				// non-ASCII bytes: invalid UTF-8, 2- and 3-byte runes, runes whose case mapping changes the byte length
				// (U+023A, U+0130, U+212A), dots first / last / only, empty extension, 16 x 0xff
				".\xe9", "r.\xe9s", "data.\xe9t\xe9\xe9", "data.ȺȺȺȺȺ", "control.\xe9\xe9\xe9\xe9", strings.Repeat("\xff", 16), "İ.tar", "a.İ",
				"K.tar.gz", "é.tar", "a.tar.é", "data.tar.\xff\xff", "€.tar.gz", ".", "..", "a.", ".a", "a..", "data.", "data.tar.",
				// NUL inside the column
				"a\x00b", "\x00//", "/\x00", "//\x00")
			raw = dedupExcept(append(raw, auditNames()...), "\x01never")
		}
		return raw
	case "magic":
		return []string{"X\n", "`X", "XY"}
	}
	if wide { // ts, uid, gid: the sign class in every alignment, plus an aligned unsigned value
		raw = append(raw, alignedAll([]string{"-1", "1"}, colWidth[col])...)
		raw = append(append(raw, auditNums(colWidth[col])...), auditTexts(colWidth[col])...)
		raw = dedupExcept(raw, "\x01never")
	}
	return raw
}

func apply(ms []gen.ArmMember, cs []corr) []gen.ArmMember {
	out := append([]gen.ArmMember(nil), ms...)
	for _, c := range cs {
		m := &out[c.M]
		switch c.Col {
		case "name":
			m.Name = c.Val
		case "ts":
			m.TS = c.Val
		case "uid":
			m.UID = c.Val
		case "gid":
			m.GID = c.Val
		case "mode":
			m.Mode = c.Val
		case "size":
			m.SizeSet, m.SizeText = true, c.Val
		case "magic":
			m.Magic = c.Val
		}
	}
	return out
}

// singles lists every (member, column, value).
func singles(ms []gen.ArmMember) []corr { return singlesOf(ms, false) }

// singlesOf: wide adds every alignment of the numeric value classes, the mode column and the special names.
func singlesOf(ms []gen.ArmMember, wide bool) []corr {
	var out []corr
	cl := cols
	if wide {
		cl = wideCols
	}
	for i, m := range ms {
		for _, col := range cl {
			for _, v := range colValues(col, len(m.Data), wide) {
				out = append(out, corr{i, col, v})
			}
		}
	}
	return out
}

// supersets calls f for every corruption set of 1..k distinct columns whose first (lowest) element is first.
func supersets(all []corr, first int, k int, f func(cs []corr) bool) bool {
	cs := []corr{all[first]}
	var rec func(from int) bool
	rec = func(from int) bool {
		if !f(cs) {
			return false
		}
		if len(cs) == k {
			return true
		}
		last := cs[len(cs)-1]
		for j := from; j < len(all); j++ {
			if all[j].M == last.M && all[j].Col == last.Col {
				continue // same column: one value per column
			}
			cs = append(cs, all[j])
			ok := rec(j + 1)
			cs = cs[:len(cs)-1]
			if !ok {
				return false
			}
		}
		return true
	}
	return rec(first + 1)
}

func descOf(b base, cs []corr) string {
	parts := []string{b.name}
	for _, c := range cs {
		parts = append(parts, c.String())
	}
	return strings.Join(parts, " ")
}

// ---- shared per-execution bookkeeping ----

type runner struct {
	conv0Only bool // set around scenarios whose inputs differ only in inner content: the ReaderAt convention is not varied
	r         *mc.Run
	hungMu    sync.Mutex
	hungSize  map[string]bool // size texts for which a deb.Load already hung (set by load-size-single)
}

const maxHangs = 8

// limiter keeps the violation records deterministic: at most one record per entry point+clause+features per SHARD (the engine's
// own cap in Stats.Violate is per worker, and which worker takes which shard varies from run to run). Every
// violating execution is still counted in the outcome histogram ("violation: <clause>").
type limiter map[string]bool

func (l limiter) record(st *mc.Stats, via string, v *mc.Violation) {
	k := via + "|" + v.Clause + "|" + strings.Join(v.Features, ",")
	if !l[k] {
		l[k] = true
		st.Viol = append(st.Viol, v)
	}
}

func (x *runner) isHung(cs []corr) bool {
	x.hungMu.Lock()
	defer x.hungMu.Unlock()
	for _, c := range cs {
		if c.Col == "size" && x.hungSize[c.Val] {
			return true
		}
	}
	return false
}

// one executes the oracle on one input under both ReaderAt conventions and does the accounting. A finding under
// convention 1 is recorded as a violation only when convention 0 does not already show the same clause (so the
// feature "readerat-eof-with-full-read" marks violations that need that convention); it is always counted in the
// histogram. It returns false when the shard should stop (a hang was just observed, or too many goroutines are
// already spinning).
func (x *runner) one(scen string, st *mc.Stats, lim limiter, b []byte, via, desc string) bool {
	return x.oneRep(scen, st, lim, b, via, desc, nil)
}

// oneRep is one for an input that may be described by a recipe (rep != nil: large input; it is journalled, keyed
// and reported by its recipe instead of its bytes).
func (x *runner) oneRep(scen string, st *mc.Stats, lim limiter, b []byte, via, desc string, rep *RepSpec) bool {
	if strings.HasPrefix(via, "load") && atomic.LoadInt64(&hangs) >= maxHangs {
		st.Class("load skipped: too many hung executions already")
		return false
	}
	anomaly, _ := refWalk(b)
	var clauses0 map[string]bool
	nconv := 2
	if x.conv0Only {
		nconv = 1
	}
	if isFileVia(via) {
		nconv = 1 // a file on disk: os.File is the reader, there is no convention to vary
	}
	for conv := 0; conv < nconv; conv++ {
		var slot int
		if rep != nil {
			slot = journalBeginIn(st, In{Conv: conv, Via: via, Desc: desc, Rep: rep})
		} else {
			slot = journalBegin(st, b, conv, via)
		}
		fs, class := eval(b, conv, via)
		journalEnd(slot)
		st.Evals += 2 // every input is run twice (determinism clause); a hang is run once
		st.Traces++
		var key string
		if rep != nil {
			key = via + strconv.Itoa(conv) + desc
		} else {
			key = via + strconv.Itoa(conv) + string(b)
		}
		st.Distinct(key)
		if anomaly != "" {
			st.DistinctNontrivial(key)
			st.Class("input: " + anomaly)
		} else {
			st.Class("input: well-formed chain")
		}
		st.Class(class)
		if len(fs) > 0 {
			if conv == 0 {
				clauses0 = map[string]bool{}
			}
			var vs []*mc.Violation
			if rep != nil {
				vs = violationsIn(scen, In{Conv: conv, Via: via, Desc: desc, Rep: rep}, b, fs)
			} else {
				vs = violations(scen, b, conv, via, desc, fs)
			}
			for _, v := range vs {
				st.Class("violation: " + v.Clause)
				if conv == 0 {
					clauses0[v.Clause] = true
				} else if clauses0[v.Clause] {
					continue
				}
				lim.record(st, via, v)
			}
		}
		if conv == 1 && st.WantSample() && len(b) < 200 && len(b)%7 == 3 {
			st.Sample(map[string]interface{}{"via": via, "conv": conv, "desc": desc, "outcome": class, "hex": fmt.Sprintf("%x", b)})
		}
		if class == "load hang" || class == "loadfile hang" {
			st.Evals--
			return false
		}
	}
	return true
}

func permutations(n int) [][]int {
	var out [][]int
	var rec func(p []int, used []bool)
	rec = func(p []int, used []bool) {
		if len(p) == n {
			out = append(out, append([]int(nil), p...))
			return
		}
		for i := 0; i < n; i++ {
			if !used[i] {
				used[i] = true
				rec(append(p, i), used)
				used[i] = false
			}
		}
	}
	rec(nil, make([]bool, n))
	return out
}

// rearrangements: every duplication (member i inserted again at position j), every removal, every permutation.
func rearrangements(ms []gen.ArmMember) (out [][]gen.ArmMember, descs []string) {
	n := len(ms)
	for i := 0; i < n; i++ {
		for j := 0; j <= n; j++ {
			a := append([]gen.ArmMember(nil), ms[:j]...)
			a = append(a, ms[i])
			a = append(a, ms[j:]...)
			out, descs = append(out, a), append(descs, fmt.Sprintf("dup m%d at %d", i, j))
		}
		a := append(append([]gen.ArmMember(nil), ms[:i]...), ms[i+1:]...)
		out, descs = append(out, a), append(descs, fmt.Sprintf("remove m%d", i))
	}
	for _, p := range permutations(n) {
		a := make([]gen.ArmMember, n)
		for i, k := range p {
			a[i] = ms[k]
		}
		out, descs = append(out, a), append(descs, fmt.Sprintf("order %v", p))
	}
	return
}

func Run(r *mc.Run) {
	if supervise(r) {
		return
	}
	if p := os.Getenv("VERIF_C15_PROF"); p != "" { // developer aid: CPU profile of the enumeration
		if f, err := os.Create(p); err == nil {
			pprof.StartCPUProfile(f)
			defer pprof.StopCPUProfile()
		}
	}
	r.Rule = "inputs are enumerated, never sampled: per base archive every set of <= k corrupted header columns (one value per decision class per column), every truncation point, every duplication / removal / permutation of members, every string of length <= 3 over {! ` \\n 0 blank} at five placements, every listed debian-binary content; each input is run under both ReaderAt conventions and (for .deb bases) through deb.Load as well, each twice; states = distinct (bytes, convention, entry point); non-trivial = the library-independent reference walk finds an anomaly in the bytes (histogram 'input: ...')"
	r.Extra["map_orders"] = MapOrderNote
	r.Assume = []string{
		"oracle = the invariants of the statement only (no panic; <= floor(len/60)+1 members, then io.EOF or an error; every member from a header with the two magic bytes, Size >= 0, Data delivers exactly Size bytes; same outcome on a second run); which inputs are accepted or rejected is not judged",
		"header offset of a returned member = base offset of its SectionReader (Data.Outer) - 60",
		"non-termination of deb.Load / LoadFile / Tarfile is detected by a " + HangGuard.String() + " watchdog for inputs whose members are stored or gzip (normal executions take < 1 ms); inputs that name an xz / lzma / zstd / bzip2 member get " + ThirdPartyGuard.String() + " and a timeout there is no verdict (class slow-third-party-decoder); after a size value has hung once, further deb.Load executions carrying that size value are not issued (exhaustive:false is reported for those scenarios)",
		"coverage-guided fuzzing named in the quantifier is replaced by exhaustive structured enumeration; compressed members: stored and gzip only",
	}
	x := &runner{r: r, hungSize: map[string]bool{}}
	k := r.Pick(2, 3)
	arB, debB := arBases(), debBases()
	allB := append(append([]base{}, arB...), debB...)

	// builder self-check: the reference walk sees every base as a well-formed chain with the right member count
	for _, b := range allB {
		if a, n := refWalk(gen.ArmBuild(b.ms)); a != "" || n != len(b.ms) {
			r.HarnessError("base %s is not well-formed for the reference walk: %q, %d members", b.name, a, n)
			return
		}
	}

	// ---- deb.Load: single size corruptions first (this is where a hang is expected on a reader that lets the
	// offset stand still); one shard per size value, stopped at its first hang ----
	sizeVals := sizeTemplates(true) // every value class in every alignment ("T" = the member's true size)
	probeB := append(append([]base{}, debB...), debPre())
	r.Scenario("load-size-single", map[string]interface{}{"bases": len(probeB), "size_templates": sizeVals, "readerat_conventions": 2,
		"alignments": "L left | R right-aligned | C one leading blank | T leading tab | Z leading zeros | P leading '+'",
		"note":       "a shard (= one size template) stops at its first hang; later scenarios skip the size texts that hung"},
		len(sizeVals), func(vi int, st *mc.Stats) bool {
			lim := limiter{}
			for _, b := range probeB {
				for m := range b.ms {
					v, ok := renderSize(sizeVals[vi], len(b.ms[m].Data))
					if !ok || v == strconv.Itoa(len(b.ms[m].Data)) {
						continue
					}
					cs := []corr{{m, "size", v}}
					bs := gen.ArmBuild(apply(b.ms, cs))
					st.Transitions++
					if !x.one("load-size-single", st, lim, bs, "load", descOf(b, cs)) {
						x.hungMu.Lock()
						x.hungSize[v] = true
						x.hungMu.Unlock()
						return false
					}
				}
			}
			return true
		})
	hung := []string{}
	for v := range x.hungSize {
		hung = append(hung, v)
	}
	sort.Strings(hung)
	r.Extra["load_size_values_that_hung"] = hung

	// ---- ar level: every single column corruption on every base (run early so that the smallest witnesses are
	// the first violation records) ----
	r.Scenario("ar-columns-single", map[string]interface{}{"bases": len(allB), "columns": "name ts uid gid size magic per member", "readerat_conventions": 2},
		len(allB), func(bi int, st *mc.Stats) bool {
			lim := limiter{}
			b := allB[bi]
			for _, c := range singles(b.ms) {
				st.Transitions++
				x.one("ar-columns-single", st, lim, gen.ArmBuild(apply(b.ms, []corr{c})), "ar", descOf(b, []corr{c}))
			}
			return true
		})

	// ---- truncation at every offset (ar level; .deb bases through deb.Load too) ----
	for _, b := range allB {
		b := b
		full := gen.ArmBuild(b.ms)
		r.Scenario("truncate-"+b.name, map[string]interface{}{"base": b.name, "length": len(full), "cuts": "every prefix 0..len",
			"via": "ar (both conventions)" + map[bool]string{true: " + deb.Load (both conventions)", false: ""}[b.deb]},
			(len(full)+1+63)/64, func(chunk int, st *mc.Stats) bool {
				lim := limiter{}
				for cut := chunk * 64; cut < (chunk+1)*64 && cut <= len(full); cut++ {
					d := fmt.Sprintf("%s truncated to %d of %d", b.name, cut, len(full))
					st.Transitions++
					x.one("truncate-"+b.name, st, lim, full[:cut], "ar", d)
					if b.deb && !x.one("truncate-"+b.name, st, lim, full[:cut], "load", d) {
						return false
					}
				}
				return true
			})
	}

	// ---- ar level: column corruptions ----
	for _, b := range allB[:3] { // ar2, ar3, deb-stored
		b := b
		all := singles(b.ms)
		k := k
		if !b.deb {
			k++ // the small bases are cheap: one more column than the tier asks for
		}
		r.Scenario("ar-columns-"+b.name, map[string]interface{}{"base": b.name, "members": len(b.ms), "columns": "name ts uid gid size magic per member",
			"single_corruptions": len(all), "max_columns_corrupted": k, "readerat_conventions": 2},
			len(all), func(shard int, st *mc.Stats) bool {
				lim := limiter{}
				ok := true
				supersets(all, shard, k, func(cs []corr) bool {
					x.one("ar-columns-"+b.name, st, lim, gen.ArmBuild(apply(b.ms, cs)), "ar", descOf(b, cs))
					st.Transitions++
					if int64(len(cs)) > st.MaxDepth {
						st.MaxDepth = int64(len(cs))
					}
					if r.Expired() {
						ok = false
					}
					return ok
				})
				return ok
			})
	}

	// ---- wide alphabets: every alignment of the numeric value classes, the mode column, GNU/BSD special names;
	// all sets of <= 2 columns (so e.g. an earlier member named "//" x a later member named "/35", both orders,
	// with empty and non-empty data), at the ar level and through deb.Load ----
	kw := 2
	for _, b := range []base{arB[0], arB[1], debB[1], debB[0], debPre()} {
		b := b
		all := singlesOf(b.ms, true)
		kb := kw
		if !b.deb && !r.Quick() {
			kb = 3
		}
		via := "ar"
		if b.deb {
			via = "ar + deb.Load"
		}
		r.Scenario("wide-columns-"+b.name, map[string]interface{}{"base": b.name, "members": len(b.ms), "columns": wideCols, "single_corruptions": len(all),
			"max_columns_corrupted": kb, "via": via, "readerat_conventions": 2, "deb_bases_sets": "deb-gz: every single + every pair that involves a name column; deb-stored, deb-pre: every single + name x name",
			"name_values": colValues("name", 0, true), "mode_values": colValues("mode", 0, true), "uid_values": colValues("uid", 0, true)},
			len(all), func(shard int, st *mc.Stats) bool {
				lim := limiter{}
				complete := true
				supersets(all, shard, kb, func(cs []corr) bool {
					if b.deb && !debWideSet(b.name != "deb-gz", cs) {
						return true
					}
					bs := gen.ArmBuild(apply(b.ms, cs))
					d := descOf(b, cs)
					st.Transitions++
					if int64(len(cs)) > st.MaxDepth {
						st.MaxDepth = int64(len(cs))
					}
					x.one("wide-columns-"+b.name, st, lim, bs, "ar", d)
					if b.deb {
						if x.isHung(cs) {
							st.Class("load skipped: size value already hung")
							complete = false
						} else if !x.one("wide-columns-"+b.name, st, lim, bs, "load", d) {
							complete = false
							return false
						}
					}
					if r.Expired() {
						complete = false
						return false
					}
					return true
				})
				return complete
			})
	}

	// ---- rearrangements ----
	r.Scenario("rearrange", map[string]interface{}{"bases": len(allB), "what": "every duplication (i re-inserted at j), removal and permutation of members"},
		len(allB), func(bi int, st *mc.Stats) bool {
			lim := limiter{}
			b := allB[bi]
			as, ds := rearrangements(b.ms)
			for i, a := range as {
				bs := gen.ArmBuild(a)
				st.Transitions++
				x.one("rearrange", st, lim, bs, "ar", b.name+" "+ds[i])
				if b.deb && !x.one("rearrange", st, lim, bs, "load", b.name+" "+ds[i]) {
					return false
				}
			}
			return true
		})

	// ---- well-formed packages longer than any window a reader might keep: 60 / 200 extra small members before,
	// after, and around the three real ones ----
	type mm struct {
		desc string
		ms   []gen.ArmMember
	}
	var many []mm
	for _, b := range []base{debB[0], debB[1]} {
		for _, n := range []int{60, 200} {
			extra := func(tag string) []gen.ArmMember {
				var e []gen.ArmMember
				for i := 0; i < n; i++ {
					e = append(e, mem(fmt.Sprintf("_%s%d", tag, i), []byte("0123456789")[:i%9]))
				}
				return e
			}
			many = append(many,
				mm{fmt.Sprintf("%s + %d small members after", b.name, n), append(append([]gen.ArmMember{}, b.ms...), extra("a")...)},
				mm{fmt.Sprintf("%s + %d small members between debian-binary and control", b.name, n), append(append(append([]gen.ArmMember{}, b.ms[0]), extra("b")...), b.ms[1:]...)},
				mm{fmt.Sprintf("%s + %d small members before", b.name, n), append(extra("c"), b.ms...)},
				mm{fmt.Sprintf("%s + %d small members before and after", b.name, n), append(append(extra("d"), b.ms...), extra("e")...)})
		}
	}
	poolScratchDirs()
	r.Scenario("deb-many-members", map[string]interface{}{"inputs": len(many), "extra_members": []int{60, 200}, "placements": "after | between debian-binary and control | before | before and after",
		"via": "ar level + deb.Load + deb.LoadFile (closer,deb)"},
		len(many), func(i int, st *mc.Stats) bool {
			lim := limiter{}
			bs := gen.ArmBuild(many[i].ms)
			st.Transitions++
			x.one("deb-many-members", st, lim, bs, "ar", many[i].desc)
			return x.one("deb-many-members", st, lim, bs, "load", many[i].desc) && x.one("deb-many-members", st, lim, bs, fileVia("closer,deb"), many[i].desc)
		})
	removeScratchDirs()

	// ---- short strings ----
	strs := gen.AllStrings(append([]string{"!", "`", "\n", "0", " "}, gen.AuditChars(oneByte, 2)...), 3)
	places := []string{"alone", "after magic", "before members", "after last member", "after member 0"}
	r.Scenario("short-strings", map[string]interface{}{"alphabet": "! ` \\n 0 blank", "max_len": 3, "strings": len(strs), "placements": places, "bases": "ar2, deb-stored"},
		len(strs), func(si int, st *mc.Stats) bool {
			lim := limiter{}
			s := []byte(strs[si])
			ok := true
			for _, b := range []base{arB[0], debB[0]} {
				full := gen.ArmBuild(b.ms)
				offs, _ := gen.ArmOffsets(b.ms)
				ins := func(at int) []byte {
					return append(append(append([]byte(nil), full[:at]...), s...), full[at:]...)
				}
				inputs := [][]byte{s, append([]byte(gen.ArmGlobalMagic), s...), ins(8), ins(len(full)), ins(offs[1])}
				for pi, pl := range places {
					d := fmt.Sprintf("%s %q %s", b.name, s, pl)
					st.Transitions++
					x.one("short-strings", st, lim, inputs[pi], "ar", d)
					if b.deb && ok {
						ok = x.one("short-strings", st, lim, inputs[pi], "load", d)
					}
				}
			}
			return ok
		})

	// ---- deb.Load: all column corruption sets (single size corruptions were done above) ----
	for _, b := range debB {
		b := b
		all := singles(b.ms)
		r.Scenario("load-columns-"+b.name, map[string]interface{}{"base": b.name, "members": 3, "single_corruptions": len(all), "max_columns_corrupted": k,
			"readerat_conventions": 2, "skipped_size_values": hung},
			len(all), func(shard int, st *mc.Stats) bool {
				lim := limiter{}
				complete := true
				supersets(all, shard, k, func(cs []corr) bool {
					if len(cs) == 1 && cs[0].Col == "size" {
						return true
					}
					if x.isHung(cs) {
						st.Class("load skipped: size value already hung")
						complete = false
						return true
					}
					st.Transitions++
					if int64(len(cs)) > st.MaxDepth {
						st.MaxDepth = int64(len(cs))
					}
					if !x.one("load-columns-"+b.name, st, lim, gen.ArmBuild(apply(b.ms, cs)), "load", descOf(b, cs)) || r.Expired() {
						complete = false
						return false
					}
					return true
				})
				return complete
			})
	}

	// ---- deb.Load: debian-binary contents and member name ----
	binVals := []string{"2.0\n", "2.0", "", "\n", "1.0\n", "3.0\n", "2.1\n", "2.0\n\n", "2.0 \n", "2.0\r\n", "0.939000\n", "2.0\nextra\n", " 2.0\n", "\x002.0\n"}
	binNames := []string{"debian-binary", "debian-binary/", "Debian-Binary", "debian-binar"}
	r.Scenario("load-debian-binary", map[string]interface{}{"contents": binVals, "member_name": binNames, "bases": len(debB)},
		len(binVals), func(vi int, st *mc.Stats) bool {
			lim := limiter{}
			for _, b := range debB {
				for _, nm := range binNames {
					ms := append([]gen.ArmMember(nil), b.ms...)
					ms[0] = mem(nm, []byte(binVals[vi]))
					bs := gen.ArmBuild(ms)
					d := fmt.Sprintf("%s %s=%q", b.name, nm, binVals[vi])
					st.Transitions++
					x.one("load-debian-binary", st, lim, bs, "ar", d)
					if !x.one("load-debian-binary", st, lim, bs, "load", d) {
						return false
					}
				}
			}
			return true
		})
	// ---- deb.LoadFile: the .deb inputs written to a scratch file, opened by path, members read, then released
	// through every sequence of one or two calls of the returned closer / Deb.Close; result compared with deb.Load ----
	type fin struct {
		desc string
		b    []byte
	}
	var fileIns []fin
	for _, b := range append(append([]base{}, debB...), debPre()) {
		full := gen.ArmBuild(b.ms)
		offs, _ := gen.ArmOffsets(b.ms)
		fileIns = append(fileIns, fin{b.name + " well-formed", full})
		for _, c := range singles(b.ms) {
			fileIns = append(fileIns, fin{descOf(b, []corr{c}), gen.ArmBuild(apply(b.ms, []corr{c}))})
		}
		as, ds := rearrangements(b.ms)
		for i, a := range as {
			fileIns = append(fileIns, fin{b.name + " " + ds[i], gen.ArmBuild(a)})
		}
		cut := map[int]bool{}
		for c := 0; c <= len(full); c++ {
			if b.name == "deb-gz" || c%64 == 0 {
				cut[c] = true
			}
		}
		for _, o := range append(offs, len(full)) {
			for _, d := range []int{-1, 0, 1, 59, 60, 61} {
				if c := o + d; c >= 0 && c <= len(full) {
					cut[c] = true
				}
			}
		}
		for c := 0; c <= len(full); c++ {
			if cut[c] {
				fileIns = append(fileIns, fin{fmt.Sprintf("%s truncated to %d of %d", b.name, c, len(full)), full[:c]})
			}
		}
		for _, v := range []string{"2.0\n", "2.0", "", "1.0\n", "2.0\n\n", "2.0\nextra\n"} {
			ms := append([]gen.ArmMember(nil), b.ms...)
			for i := range ms {
				if ms[i].Name == "debian-binary" {
					ms[i] = mem("debian-binary", []byte(v))
				}
			}
			fileIns = append(fileIns, fin{fmt.Sprintf("%s debian-binary=%q", b.name, v), gen.ArmBuild(ms)})
		}
	}
	const fchunk = 32
	poolScratchDirs()
	r.Scenario("loadfile", map[string]interface{}{"inputs": len(fileIns), "close_patterns": ClosePatterns,
		"menu":          "5 .deb bases (control/data stored or gzip, one with an empty leading member): well-formed, every single column corruption, every duplication/removal/permutation, truncations (deb-gz: every offset; others: every 64th offset and around every member boundary), 6 debian-binary contents",
		"compared_with": "deb.Load on the same bytes"},
		(len(fileIns)+fchunk-1)/fchunk, func(shard int, st *mc.Stats) bool {
			lim := limiter{}
			for i := shard * fchunk; i < (shard+1)*fchunk && i < len(fileIns); i++ {
				for _, p := range ClosePatterns {
					st.Transitions++
					if !x.one("loadfile", st, lim, fileIns[i].b, fileVia(p), fileIns[i].desc) {
						return false
					}
				}
			}
			return !r.Expired()
		})
	removeScratchDirs()

	// ---- valid containers around near-miss content (content.go) ----
	poolScratchDirs()
	x.controlContentScenario(r)
	x.controlTailsScenario(r)
	x.streamScenario(r)
	x.tarHeaderScenario(r)
	x.doubleDefectScenario(r)
	x.fieldCaseScenario(r)
	removeScratchDirs()

	// ---- large inputs: long runs of one byte and very many members (a reader that does work per byte or per
	// member - recursion, allocation - shows only here). 4 shards: at most 4 of these are in memory / on the stack
	// at once; a stack overflow or out-of-memory kills the child process and is reported by the supervisor. ----
	li := largeInputs(r.Quick())
	r.Scenario("large-inputs", map[string]interface{}{"inputs": len(li), "filler_bytes": fmt.Sprintf("%q", largeFillers()), "run_lengths": largeLens(r.Quick()),
		"member_counts": largeCounts(), "placements": "after the archive | between the global magic and the members | between member 0 and 1 | as the data the last member's size column claims",
		"bases": "ar2 (ar level), deb-stored (ar level + deb.Load)", "readerat_conventions": 2},
		4, func(shard int, st *mc.Stats) bool {
			lim := limiter{}
			for i := shard; i < len(li); i += 4 {
				in := In{Rep: &li[i].rep}
				b, err := in.Bytes()
				if err != nil {
					r.HarnessError("large input %s: %v", li[i].desc, err)
					return false
				}
				st.Transitions++
				x.oneRep("large-inputs", st, lim, b, "ar", li[i].desc, &li[i].rep)
				if li[i].deb && !x.oneRep("large-inputs", st, lim, b, "load", li[i].desc, &li[i].rep) {
					return false
				}
				if r.Expired() {
					return false
				}
			}
			return true
		})
	r.Extra["load_executions_that_did_not_return"] = atomic.LoadInt64(&hangs)
	r.Extra["third_party_executions_abandoned_no_verdict"] = atomic.LoadInt64(&slowThirdParty)
}

// ---- large inputs ----

type largeIn struct {
	desc string
	rep  RepSpec
	deb  bool
}

func largeFillers() []byte {
	f := []byte{'\n', '!', '`', '0', ' ', 0}
	for _, c := range gen.AuditChars(oneByte, 2) {
		f = append(f, c[0])
	}
	return f
}

func largeLens(quick bool) []int {
	l := []int{64 << 10, 1 << 20, 8 << 20}
	if !quick {
		l = append(l, 32<<20)
	}
	for _, v := range gen.AuditInts(61, 32<<20, 6) { // run lengths around constants a change introduced
		l = append(l, int(v))
	}
	return l
}

func largeCounts() []int {
	c := []int{10000, 100000}
	for _, v := range gen.AuditInts(5, 200000, 6) { // member counts around constants a change introduced
		c = append(c, int(v))
	}
	return c
}

func largeInputs(quick bool) []largeIn {
	hx := func(b []byte) string { return fmt.Sprintf("%x", b) }
	var out []largeIn
	for _, b := range []base{arBases()[0], debBase(false, false)} {
		full := gen.ArmBuild(b.ms)
		offs, _ := gen.ArmOffsets(b.ms)
		last := len(b.ms) - 1
		for _, f := range largeFillers() {
			for _, n := range largeLens(quick) {
				d := fmt.Sprintf("%s + %d x %q ", b.name, n, f)
				out = append(out,
					largeIn{d + "after the archive", RepSpec{Prefix: hx(full), Unit: hx([]byte{f}), Count: n}, b.deb},
					largeIn{d + "between the global magic and the members", RepSpec{Prefix: hx(full[:8]), Unit: hx([]byte{f}), Count: n, Suffix: hx(full[8:])}, b.deb},
					largeIn{d + "between member 0 and member 1", RepSpec{Prefix: hx(full[:offs[1]]), Unit: hx([]byte{f}), Count: n, Suffix: hx(full[offs[1]:])}, b.deb})
				// the last member's size column claims the run as its data
				m := b.ms[last]
				m.SizeSet, m.SizeText = true, strconv.Itoa(n)
				pad := []byte{}
				if n%2 == 1 {
					pad = []byte{'\n'}
				}
				out = append(out, largeIn{d + "as the data of the last member (size column = run length)",
					RepSpec{Prefix: hx(append(append([]byte(nil), full[:offs[last]]...), gen.ArmHeader(m)...)), Unit: hx([]byte{f}), Count: n, Suffix: hx(pad)}, b.deb})
			}
		}
		// very many small members
		for _, n := range largeCounts() {
			for _, data := range []string{"", "x", "xy"} {
				u := gen.ArmBuild([]gen.ArmMember{mem("m", []byte(data))})[8:]
				pre := full
				if !b.deb {
					pre = full[:8]
				} else if data != "" {
					continue
				}
				out = append(out, largeIn{fmt.Sprintf("%s + %d members of %d byte(s)", b.name, n, len(data)), RepSpec{Prefix: hx(pre), Unit: hx(u), Count: n}, b.deb})
			}
		}
	}
	return out
}
