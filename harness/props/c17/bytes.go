package c17

// Byte classes of the model (round 8): text that is not valid UTF-8 (ISO-8859-1 bytes as in pre-2005 changelog
// blocks, a lone lead byte, a truncated sequence), valid 2/3/4-byte characters, characters whose encoding ends in
// 0xA0 / 0x85 right before a terminator, NUL, CR inside a line. They are "extended" alternatives: appended to the
// tables after the core ones, explored by the one-entry products, the file entry points, the fixed changelogs and
// at every position of a three-entry changelog (scenario extended-alternatives), not by the choice tree.
var (
	extBody = [][]string{
		{"  * J\xf6rg M\xfcller fixed \xff it (ISO-8859-1 bytes)", "  * a lone lead byte \xc3", "  * a truncated sequence \xe6\x97", "    \xf6 first on a continuation line", "  * NUL \x00 inside", "  * CR \r inside a line"},
		{"  * valid: é 日本 \U0001F600", "  * a line that ends in à", "  * a line that ends in Å", "    à", "  *   and \u0085 themselves:  \u0085"},
	}
	extMaint = []string{
		"J\xf6rg M\xfcller <joerg@example.org>",
		"Ren\xc3 \xe6\x97 <j\xf6rg@example.org>",
		"Zoë 日本 \U0001F600 à <zoe@example.org>",
		"NUL \x00 and CR \r Person <p@example.org>",
	}
	extOpts = [][]KV{
		{{"urgency", "low"}, {"x-by", "J\xf6rg 日本"}, {"x-end", "cafà"}}, // the last value ends in 0xA0 right before the newline
		{{"urgency", "low"}, {"x-end", "Å"}},
	}
	extDists = []string{"unstable exp\xe9rimental", "unstable Å"} // the second ends in 0x85 right before ';'
)

// JSON: violation inputs go through mc.MarshalInput / mc.UnmarshalInput (lossless for strings that are not valid UTF-8).
