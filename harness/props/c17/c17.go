// Package c17: changelog parsing returns every entry faithfully, or an error.
package c17

import (
	"bufio"
	"encoding/json"
	"fmt"
	"io"
	"reflect"
	"strings"
	"testing/iotest"

	"pault.ag/go/debian/changelog"
	"pault.ag/go/debian/version"

	"verifharness/mc"
	"verifharness/props/reg"
)

func init() { reg.Register(&reg.Prop{ID: "C17", Run: Run, Replay: Replay}) }

// In is the replayable input: a model, how its rendering is damaged, and how it is parsed.
type In struct {
	Doc      Doc    `json:"doc"`
	API      string `json:"api"`                   // Parse | ParseOne (a loop of ParseOne on one bufio.Reader until io.EOF)
	Delivery string `json:"delivery"`              // whole | onebyte (the io.Reader yields one byte per Read) | smallbuf (16-byte bufio.Reader)
	Damage   string `json:"damage,omitempty"`      // "" | no-final-newline | prefix | delete | subst
	Pos      int    `json:"pos,omitempty"`         // prefix: length kept; delete: offset of the deleted byte; subst: offset of the occurrence
	Rule     string `json:"rule,omitempty"`        // subst: name of the substitution
	Entry    string `json:"entry_point,omitempty"` // "" = reader (Parse / ParseOne loop) | file-abs | file-bare | file-dot | file-dotdot | file-missing: ParseFile / ParseFileOne
}

// A substitution replaces Old at one occurrence by New. Date rules are resolved against the entry's date tokens.
type substRule struct {
	Name     string
	Old, New string
	DateTok  int // >= 0: Old is the DateTok-th token of the trailer date
}

var substRules = []substRule{
	{"paren-open-to-space", "(", " ", -1},
	{"paren-close-to-space", ")", " ", -1},
	{"semicolon-to-comma", ";", ",", -1},
	{"trailer-dashes-to-dash", " -- ", " - ", -1},
	{"two-spaces-to-one", "  ", " ", -1},
	{"date-weekday-without-comma", "", "", 0},
	{"date-weekday-unknown", "", "Xyz,", 0},
	{"date-day-one-digit", "", "", 1},
	{"date-day-39", "", "39", 1},
	{"date-month-unknown", "", "Mrz", 2},
	{"date-year-two-digits", "", "", 3},
	{"date-time-without-seconds", "", "", 4},
	{"date-time-hour-25", "", "", 4},
	{"date-zone-without-sign", "", "", 5},
	{"date-zone-with-colon", "", "", 5},
	{"date-zone-name", "", "UTC", 5},
}

func dateDamage(rule string, tok string) string {
	switch rule {
	case "date-weekday-without-comma":
		return strings.TrimSuffix(tok, ",")
	case "date-day-one-digit":
		return tok[1:]
	case "date-year-two-digits":
		return tok[2:]
	case "date-time-without-seconds":
		return tok[:5]
	case "date-time-hour-25":
		return "25" + tok[2:]
	case "date-zone-without-sign":
		return tok[1:]
	case "date-zone-with-colon":
		return tok[:3] + ":" + tok[3:]
	}
	return ""
}

// expectation for one input
type expect struct {
	text        string
	blocks      int    // entry blocks (complete or not) in the input
	mustEqual   []bool // per block: if the parse succeeds, this entry must equal the model
	mustSucceed bool   // the input is a well-formed changelog: an error is a violation
	anyCount0   bool   // no block at all: an empty list and an error are both acceptable
	features    []string
	valid       bool
}

func allTrue(n int) []bool {
	b := make([]bool, n)
	for i := range b {
		b[i] = true
	}
	return b
}

// derive renders the model, applies the damage and says what the statement requires of the result.
func derive(in In) expect {
	text, lay := in.Doc.Render()
	n := len(in.Doc.Entries)
	ex := expect{valid: true}
	switch in.Damage {
	case "":
		ex.text, ex.blocks, ex.mustEqual, ex.mustSucceed = text, n, allTrue(n), true
	case "no-final-newline":
		// the last newline of the rendering is removed; with trailing blank lines the result is still well formed
		ex.text, ex.blocks, ex.mustEqual = text[:len(text)-1], n, allTrue(n)
		ex.mustSucceed = in.Doc.Trail > 0
	case "prefix":
		p := in.Pos
		if p < 0 || p > len(text) {
			return expect{}
		}
		ex.text = text[:p]
		c := 0
		for c < n && lay.End[c] <= p {
			c++
		}
		if c == n || p <= lay.Start[c] {
			// ends at an entry boundary (possibly followed by blank lines): exactly those entries
			ex.blocks, ex.mustEqual, ex.mustSucceed, ex.anyCount0 = c, allTrue(c), c > 0, c == 0
		} else {
			ex.blocks = c + 1
			ex.mustEqual = allTrue(c + 1)
			if p != lay.TrailerNL[c] {
				ex.mustEqual[c] = false // the last block is incomplete
				ex.features = append(ex.features, "truncated-inside-entry")
			}
		}
	case "delete":
		d := in.Pos
		if d < 0 || d >= len(text) {
			return expect{}
		}
		ex.text = text[:d] + text[d+1:]
		ex.blocks, ex.mustEqual = n, allTrue(n)
		if o := lay.Owner(d); o >= 0 && d != lay.TrailerNL[o] {
			ex.mustEqual[o] = false
		}
		ex.features = append(ex.features, "deleted-byte")
	case "subst":
		var rule *substRule
		for i := range substRules {
			if substRules[i].Name == in.Rule {
				rule = &substRules[i]
			}
		}
		if rule == nil || in.Pos < 0 || in.Pos >= len(text) || lay.Owner(in.Pos) < 0 {
			return expect{}
		}
		o := lay.Owner(in.Pos)
		old, nw := rule.Old, rule.New
		if rule.DateTok >= 0 {
			toks := in.Doc.Entries[o].Date.tokens()
			off := lay.DateStart[o]
			for i := 0; i < rule.DateTok; i++ {
				off += len(toks[i]) + 1
			}
			if off != in.Pos {
				return expect{}
			}
			old = toks[rule.DateTok]
			if nw == "" {
				nw = dateDamage(rule.Name, old)
			}
		}
		if !strings.HasPrefix(text[in.Pos:], old) {
			return expect{}
		}
		ex.text = text[:in.Pos] + nw + text[in.Pos+len(old):]
		ex.blocks, ex.mustEqual = n, allTrue(n)
		ex.mustEqual[o] = false
		ex.features = append(ex.features, "substitution")
	default:
		return expect{}
	}
	if in.Doc.CRLF {
		// CR LF line ends are not dpkg format; what is pinned: an error, or every entry with byte-exact fields
		if in.Damage != "" && in.Damage != "no-final-newline" {
			return expect{}
		}
		ex.mustSucceed = false
		ex.features = append(ex.features, "crlf-line-ends")
	}
	if ex.text != "" && !strings.HasSuffix(ex.text, "\n") {
		ex.features = append(ex.features, "no-final-newline")
	}
	return ex
}

// parse runs the library. A panic is reported as such.
func parse(in In, text string) (entries []changelog.ChangelogEntry, err error, panicked string) {
	var r io.Reader = strings.NewReader(text)
	if in.Delivery == "onebyte" {
		r = iotest.OneByteReader(r)
	}
	p, msg := mc.Guard(func() {
		if isFileEntry(in.Entry) {
			entries, err = viaFile(in, text)
			return
		}
		switch in.API {
		case "Parse":
			var es changelog.ChangelogEntries
			es, err = changelog.Parse(r)
			entries = es
		default:
			br := bufio.NewReader(r)
			if in.Delivery == "smallbuf" {
				br = bufio.NewReaderSize(r, 16)
			}
			for i := 0; ; i++ {
				if i > len(text)+2 {
					err = fmt.Errorf("harness: ParseOne loop does not terminate")
					panic(err)
				}
				e, e1 := changelog.ParseOne(br)
				if e1 == io.EOF {
					if e != nil {
						entries = append(entries, *e) // an entry delivered together with io.EOF counts
					}
					return
				}
				if e1 != nil {
					err = e1
					return
				}
				if e == nil {
					err = fmt.Errorf("harness: ParseOne returned (nil, nil)")
					panic(err)
				}
				entries = append(entries, *e)
			}
		}
	})
	if p {
		panicked = msg
	}
	return
}

// diffEntry compares a parsed entry with the model; it returns the clause of the first differing field.
func diffEntry(got changelog.ChangelogEntry, m Entry, crlf bool) (clause, want, have string) {
	if got.Source != m.Source {
		return "source-as-written", m.Source, got.Source
	}
	wv := version.Version{Epoch: m.Version.Epoch, Version: m.Version.Upstream, Revision: m.Version.Revision}
	if got.Version != wv {
		return "version-as-written", fmt.Sprintf("%+v", wv), fmt.Sprintf("%+v", got.Version)
	}
	if got.Target != m.Dists {
		return "distributions-as-written", m.Dists, got.Target
	}
	wa := map[string]string{}
	for _, kv := range m.Opts {
		wa[kv.K] = kv.V
	}
	if !reflect.DeepEqual(got.Arguments, wa) {
		return "options-as-written", fmt.Sprint(wa), fmt.Sprint(got.Arguments)
	}
	ct := m.changeText()
	if crlf {
		ct = strings.Replace(ct, "\n", "\r\n", -1)
	}
	if got.Changelog != ct {
		return "change-text-verbatim", fmt.Sprintf("%q", ct), fmt.Sprintf("%q", got.Changelog)
	}
	if got.ChangedBy != m.Maint {
		return "maintainer-as-written", m.Maint, got.ChangedBy
	}
	wt := m.Date.instant()
	if !got.When.Equal(wt) {
		return "timestamp-instant", wt.String(), got.When.String()
	}
	if _, off := got.When.Zone(); off != m.Date.OffMin*60 {
		return "timestamp-zone-offset", fmt.Sprintf("%d s east of UTC", m.Date.OffMin*60), fmt.Sprintf("%d s (%s)", off, got.When)
	}
	return "", "", ""
}

// check is the oracle for one input. It also returns the outcome class for the histogram.
func check(scen string, in In) (*mc.Violation, string) {
	if len(in.Doc.Entries) == 0 || (in.API != "Parse" && in.API != "ParseOne") {
		return nil, ""
	}
	ex := derive(in)
	if !ex.valid {
		return nil, ""
	}
	kind := "wellformed"
	if !ex.mustSucceed {
		kind = "damaged"
	}
	if isFileEntry(in.Entry) {
		ex.features = append(ex.features, "entry-"+in.Entry)
		if in.API == "ParseOne" && ex.blocks > 1 { // ParseFileOne reads the first entry only
			ex.blocks, ex.mustEqual = 1, ex.mustEqual[:1]
		}
	}
	got, err, panicked := parse(in, ex.text)
	if panicked != "" {
		return vt(ex.text, scen, "no-panic", in, "entries or an error", "panic: "+panicked, ex.features...), kind + "/panic"
	}
	if isFileEntry(in.Entry) {
		if v := checkFileAgainstReader(scen, in, ex.text, got, err, ex.features); v != nil {
			return v, kind + "/differs-from-reader"
		}
		if in.Entry == "file-missing" || in.Entry == "file-dir" {
			return nil, "not-a-file/error"
		}
	}
	if err != nil {
		if ex.mustSucceed {
			return vt(ex.text, scen, "wellformed-changelog-parses", in, fmt.Sprintf("%d entries, nil error", ex.blocks), "error: "+err.Error(), ex.features...), kind + "/error"
		}
		return nil, kind + "/error"
	}
	if len(got) != ex.blocks {
		if ex.anyCount0 {
			return nil, kind + "/no-entries"
		}
		clause := "one-entry-per-block"
		exp := fmt.Sprintf("%d entries", ex.blocks)
		if !ex.mustSucceed {
			exp = fmt.Sprintf("an error, or %d entries", ex.blocks)
			if len(got) < ex.blocks {
				clause = "no-silently-shortened-list"
			}
		}
		return vt(ex.text, scen, clause, in, exp, fmt.Sprintf("%d entries, nil error", len(got)), ex.features...), kind + "/wrong-count"
	}
	for i, e := range got {
		if !ex.mustEqual[i] {
			continue
		}
		if clause, want, have := diffEntry(e, in.Doc.Entries[i], in.Doc.CRLF); clause != "" {
			return vt(ex.text, scen, clause, in, fmt.Sprintf("entry %d: %s", i, want), have, ex.features...), kind + "/unfaithful-entry"
		}
	}
	return nil, fmt.Sprintf("%s/entries=%d", kind, len(got))
}

// vt builds a violation and attaches the concrete input text for the reader of the artefact.
func vt(text, scen, clause string, in In, expected, observed string, features ...string) *mc.Violation {
	v := mc.V(scen, clause, in, expected, observed, features...)
	v.Text = text
	return v
}

// ---- enumeration ---------------------------------------------------------------------------------------------

var apis = []string{"Parse", "ParseOne"}

func deliveries(api string) []string {
	if api == "Parse" {
		return []string{"whole", "onebyte"}
	}
	return []string{"whole", "onebyte", "smallbuf"}
}

func record(st *mc.Stats, scen string, in In, sampleIf bool) {
	v, class := check(scen, in)
	if class == "" {
		return
	}
	st.Evals++
	st.Traces++
	st.Class(class)
	st.Violate(v)
	if sampleIf && st.WantSample() {
		text := derive(in).text
		st.Sample(map[string]interface{}{"api": in.API, "delivery": in.Delivery, "damage": in.Damage, "pos": in.Pos, "rule": in.Rule, "input_text": text})
	}
}

var entryLabels = func() (out [3]map[string]string) {
	for i := range out {
		out[i] = map[string]string{}
		for _, s := range []string{"source", "version", "dists", "options", "option-separator", "body", "blank-before-body", "blank-after-body", "maintainer", "date"} {
			out[i][s] = fmt.Sprintf("e%d.%s", i, s)
		}
	}
	return
}()

// dev is the Deviate source of the model tree. To spread one tree over many shards, the executions are
// partitioned by their FIRST non-default answer: a shard forces the default at every point before point
// firstPoint, forces alternative firstAlt there, and lets the explorer enumerate the points after it with the
// remaining budget. firstPoint < 0 is the single all-default execution. With x == nil it only records the
// number of alternatives of each point (dry run used to lay out the shards).
type dev struct {
	x                    *mc.X
	idx                  int
	firstPoint, firstAlt int
	ns                   []int
}

func (c *dev) ask(n int, label string) int {
	i := c.idx
	c.idx++
	if c.x == nil {
		c.ns = append(c.ns, n)
		return 0
	}
	switch {
	case c.firstPoint < 0 || i < c.firstPoint:
		return 0
	case i == c.firstPoint:
		return c.firstAlt
	}
	return c.x.Deviate(n, label)
}

// treeBody maps the tree's body alternative to the table index: the very long line is left to the body product
// (all deliveries, all blank-line counts), it is by far the most expensive alternative and interacts with nothing else.
func treeBody(i int) int {
	if i >= longBody {
		return i + 1
	}
	return i
}

// treeDoc asks every deviation point of a changelog with n entries.
func treeDoc(c *dev, n int) (Doc, string) {
	lead := c.ask(3, "leading-blank-lines")
	var ps []Pick
	var between []int
	for i := 0; i < n; i++ {
		l := entryLabels[i]
		ps = append(ps, Pick{Source: c.ask(base.source, l["source"]), Version: c.ask(nVersion, l["version"]), Dists: c.ask(base.dists, l["dists"]),
			Opts: c.ask(base.opts, l["options"]), OptSep: c.ask(len(altOptSep), l["option-separator"]), Body: treeBody(c.ask(base.body-1, l["body"])), Before: c.ask(2, l["blank-before-body"]),
			After: c.ask(2, l["blank-after-body"]), Maint: c.ask(base.maint, l["maintainer"]), Date: c.ask(base.date, l["date"])})
		if i < n-1 {
			between = append(between, 1+c.ask(3, "blank-lines-between"))
		}
	}
	trail := c.ask(3, "trailing-blank-lines")
	dmg := ""
	if c.ask(2, "final-newline-absent") == 1 {
		dmg = "no-final-newline"
	}
	return mkDoc(ps, lead, between, trail), dmg
}

func Run(r *mc.Run) {
	r.Rule = "changelogs are rendered from an entry-list model: (a) choice tree over 1..3 entries with at most k attribute/blank-line/final-newline deviations from the default, " +
		"(b) the full attribute product for one entry, (c) every prefix, every single-byte deletion and every occurrence of the listed substitutions of 6 fixed multi-entry changelogs; " +
		"each through Parse and through a ParseOne loop, with whole / one-byte / 16-byte-buffer delivery. Distinct by construction except where a deviation repeats a default; " +
		"non-trivial = inputs with at least one entry block (all but the empty and blank-only prefixes)"
	r.Assume = []string{
		"the expected entries are the model the text was rendered from (independent renderer; weekday by Sakamoto's rule; instants via time.Date on the model's civil time and offset)",
		"change text is compared verbatim: every line between the header line and the trailer line, with its newline, including the blank lines around the body",
		"damaged input: the result must be an error, or exactly as many entries as the input has entry blocks with every undamaged entry equal to the model; the damaged entry itself is unconstrained",
		"a ParseOne loop ends at io.EOF (as Parse does); an entry returned together with io.EOF is counted",
		"blank lines are empty lines; whitespace-only lines, CR LF and bytes outside the model's alphabets are not explored",
	}
	applyAudit() // alphabet audit: extends the alternative tables for this run; nothing on the unchanged tree
	selfCheck(r)
	if len(auditNote) > 0 {
		r.Extra["alphabet_audit_c17"] = auditNote
	}
	k := r.Pick(3, 4)

	// (a) choice tree
	type shard struct {
		n                    int
		api, del             string
		firstPoint, firstAlt int
	}
	var shards []shard
	for n := 3; n >= 1; n-- {
		dry := &dev{}
		treeDoc(dry, n)
		for _, a := range apis {
			for _, d := range deliveries(a) {
				shards = append(shards, shard{n, a, d, -1, 0})
				for p, alts := range dry.ns {
					for alt := 1; alt < alts; alt++ {
						shards = append(shards, shard{n, a, d, p, alt})
					}
				}
			}
		}
	}
	r.Scenario("model-tree", map[string]interface{}{"entries": "1..3", "deviation_bound_k": fmt.Sprintf("%d with whole delivery, %d with onebyte / smallbuf delivery", k, k-1),
		"per_entry_points": fmt.Sprintf("source(%d) version(%d) distributions(%d) options(%d) option-separator(%d) body(%d) blank-before(2) blank-after(2) maintainer(%d) date(%d)", base.source, nVersion, base.dists, base.opts, len(altOptSep), base.body-1, base.maint, base.date),
		"global_points":    "leading blank lines(0..2) blank lines between entries(1..3) trailing blank lines(0..2) final newline(present/absent)",
		"apis":             apis, "delivery": "whole, onebyte, smallbuf(ParseOne only)",
		"sharding": "executions partitioned by entry count, API, delivery and their first non-default answer"}, len(shards),
		func(si int, st *mc.Stats) bool {
			sh := shards[si]
			ok := true
			cnt := 0
			bound := k - 1
			if sh.del != "whole" {
				bound-- // delivery is reader plumbing, independent of the model: one deviation less
			}
			if bound < 0 && sh.firstPoint >= 0 {
				return true
			}
			if sh.firstPoint < 0 {
				bound = 0
			}
			_, div := mc.Explore(bound, st, func(x *mc.X) {
				if cnt&1023 == 0 && r.Expired() {
					ok = false
				}
				cnt++
				if !ok {
					return
				}
				doc, dmg := treeDoc(&dev{x: x, firstPoint: sh.firstPoint, firstAlt: sh.firstAlt}, sh.n)
				in := In{Doc: doc, API: sh.api, Delivery: sh.del, Damage: dmg}
				st.Nontrivial++
				record(st, "model-tree", in, (si == 7 || si == len(shards)/2 || si == len(shards)-40) && cnt == 3)
			})
			if div != "" {
				r.HarnessError("model-tree: %s", div)
			}
			return ok
		})

	// (b) products for one entry. The header, the body and the trailer are read by disjoint code, so the quick tier
	// takes the full product of the header and trailer attributes (default body) and the full product of the body
	// attributes with the distributions (default rest); the thorough tier takes the full product of everything.
	full := func(bodies, befores, afters, sources, versions, dists, opts, seps, maints, dates int) []Pick {
		var picks []Pick
		for s := 0; s < sources; s++ {
			for v := 0; v < versions; v++ {
				for d := 0; d < dists; d++ {
					for o := 0; o < opts; o++ {
						for sp := 0; sp < seps; sp++ {
							for b := 0; b < bodies; b++ {
								for bb := 0; bb < befores; bb++ {
									for ba := 0; ba < afters; ba++ {
										for m := 0; m < maints; m++ {
											for dt := 0; dt < dates; dt++ {
												picks = append(picks, Pick{Source: s, Version: v, Dists: d, Opts: o, OptSep: sp, Body: b, Before: bb, After: ba, Maint: m, Date: dt})
											}
										}
									}
								}
							}
						}
					}
				}
			}
		}
		return picks
	}
	product := func(name, what string, picks []Pick, dels bool) {
		r.Scenario(name, map[string]interface{}{"entries": len(picks), "product_of": what, "final_newline": "present, absent", "apis": apis,
			"delivery": map[bool]string{true: "whole, onebyte, smallbuf(ParseOne only)", false: "whole"}[dels]}, len(picks),
			func(i int, st *mc.Stats) bool {
				if i&1023 == 0 && r.Expired() {
					return false
				}
				for _, a := range apis {
					ds := []string{"whole"}
					if dels {
						ds = deliveries(a)
					}
					for _, del := range ds {
						for _, dmg := range []string{"", "no-final-newline"} {
							st.Nontrivial++
							record(st, name, In{Doc: mkDoc([]Pick{picks[i]}, 0, nil, 0), API: a, Delivery: del, Damage: dmg}, i == len(picks)*5/7 && a == "ParseOne" && dmg == "" && del == "whole")
						}
					}
				}
				return true
			})
	}
	product("one-entry-header-trailer-product", "source x version x distributions x options x option separator x maintainer x date (default body)",
		full(1, 1, 1, len(altSource), nVersion, len(altDists), len(altOpts), len(altOptSep), len(altMaint), len(altDate)), false)
	product("one-entry-body-product", "body shape x blank lines before x blank lines after x distributions (default rest)",
		full(len(altBody), 2, 2, 1, 1, len(altDists), 1, 1, 1, 1), true)
	if !r.Quick() {
		product("one-entry-full-product", "every attribute",
			full(base.body, 2, 2, base.source, nVersion, base.dists, base.opts, len(altOptSep), base.maint, base.date), false)
	}

	// extended alternatives (byte classes, and whatever the alphabet audit added): every one at every position of a
	// three-entry changelog; whole changelogs with entry counts around a new integer constant (audit); the fixed
	// changelogs and three one-entry changelogs with CR LF line ends. All APIs and deliveries, final newline present/absent.
	{
		docs := append([]Doc(nil), auditDocs...)
		for i, d := range append(fixedDocs(), mkDoc([]Pick{{}}, 0, nil, 0), mkDoc([]Pick{{Body: 4, Opts: 1}}, 0, nil, 0), mkDoc([]Pick{{Body: base.body, Maint: base.maint}}, 1, nil, 1)) {
			_ = i
			d.CRLF = true
			docs = append(docs, d)
		}
		type slot struct {
			name string
			from int
			to   int
			set  func(p *Pick, v int)
		}
		for _, sl := range []slot{
			{"source", base.source, len(altSource), func(p *Pick, v int) { p.Source = v }},
			{"dists", base.dists, len(altDists), func(p *Pick, v int) { p.Dists = v }},
			{"opts", base.opts, len(altOpts), func(p *Pick, v int) { p.Opts = v }},
			{"body", base.body, len(altBody), func(p *Pick, v int) { p.Body = v }},
			{"maint", base.maint, len(altMaint), func(p *Pick, v int) { p.Maint = v }},
			{"date", base.date, len(altDate), func(p *Pick, v int) { p.Date = v }},
		} {
			for v := sl.from; v < sl.to; v++ {
				for pos := 0; pos < 3; pos++ {
					ps := []Pick{{Body: 1}, {Body: 4, Date: 1}, {Body: 5, Date: 3, Maint: 2}}
					sl.set(&ps[pos], v)
					docs = append(docs, mkDoc(ps, 0, []int{1, 2}, 0))
				}
			}
		}
		r.Scenario("extended-alternatives", map[string]interface{}{"changelogs": len(docs), "byte_classes": "invalid UTF-8 (f6 fc ff, lone c3, truncated e6 97), valid 2/3/4-byte characters, characters ending in a0 / 85 at the end of a line / value / list, NUL, CR inside a line - in change text, maintainer name and address, option values, distribution list",
			"crlf": "9 changelogs with CR LF line ends: an error, or all entries with byte-exact fields (change text keeps its CR LF)", "audit_added": auditNote["added"]}, len(docs),
			func(i int, st *mc.Stats) bool {
				for _, a := range apis {
					for _, del := range deliveries(a) {
						for _, dmg := range []string{"", "no-final-newline"} {
							st.Nontrivial++
							record(st, "extended-alternatives", In{Doc: docs[i], API: a, Delivery: del, Damage: dmg}, i == len(docs)/2 && a == "Parse" && del == "whole" && dmg == "")
						}
					}
				}
				return true
			})
	}

	// file entry points (ParseFile / ParseFileOne) as an explicit entry-point dimension
	fileEntryScenario(r)

	// (c) damage of fixed documents
	docs := fixedDocs()
	var sizes []int
	for _, d := range docs {
		t, _ := d.Render()
		sizes = append(sizes, len(t))
	}
	r.Scenario("every-prefix", map[string]interface{}{"documents": len(docs), "bytes": sizes, "prefixes": "every length 0..len", "apis": apis, "delivery": "whole (+ onebyte for Parse)"}, len(docs),
		func(di int, st *mc.Stats) bool {
			text, lay := docs[di].Render()
			for p := 0; p <= len(text); p++ {
				for _, a := range apis {
					dels := []string{"whole"}
					if a == "Parse" {
						dels = append(dels, "onebyte")
					}
					for _, del := range dels {
						if p > lay.Start[0] {
							st.Nontrivial++
						}
						record(st, "every-prefix", In{Doc: docs[di], API: a, Delivery: del, Damage: "prefix", Pos: p}, (di == 1 || di == 4) && a == "Parse" && del == "whole" && (p == lay.End[0]+lay.Start[0] || p == lay.TrailerNL[1]))
					}
				}
			}
			return true
		})
	r.Scenario("every-deletion", map[string]interface{}{"documents": len(docs), "bytes": sizes, "deletions": "every single byte", "apis": apis}, len(docs),
		func(di int, st *mc.Stats) bool {
			text, _ := docs[di].Render()
			for p := 0; p < len(text); p++ {
				for _, a := range apis {
					st.Nontrivial++
					record(st, "every-deletion", In{Doc: docs[di], API: a, Delivery: "whole", Damage: "delete", Pos: p}, di == 2 && a == "Parse" && (p == 100 || p == 333))
				}
			}
			return true
		})
	var ruleNames []string
	for _, ru := range substRules {
		ruleNames = append(ruleNames, ru.Name)
	}
	r.Scenario("every-substitution", map[string]interface{}{"documents": len(docs), "rules": ruleNames, "occurrences": "every occurrence inside an entry, one at a time", "apis": apis}, len(docs),
		func(di int, st *mc.Stats) bool {
			text, lay := docs[di].Render()
			for _, ru := range substRules {
				var positions []int
				if ru.DateTok >= 0 {
					for e := range docs[di].Entries {
						toks := docs[di].Entries[e].Date.tokens()
						off := lay.DateStart[e]
						for i := 0; i < ru.DateTok; i++ {
							off += len(toks[i]) + 1
						}
						positions = append(positions, off)
					}
				} else {
					for p := 0; p+len(ru.Old) <= len(text); p++ {
						if strings.HasPrefix(text[p:], ru.Old) && lay.Owner(p) >= 0 {
							positions = append(positions, p)
						}
					}
				}
				for _, p := range positions {
					for _, a := range apis {
						st.Nontrivial++
						record(st, "every-substitution", In{Doc: docs[di], API: a, Delivery: "whole", Damage: "subst", Pos: p, Rule: ru.Name}, di == 3 && a == "ParseOne" && (ru.Name == "date-zone-with-colon" || ru.Name == "semicolon-to-comma") && p == positions[len(positions)-1])
					}
				}
			}
			return true
		})
}

// fileEntryScenario drives ParseFile / ParseFileOne (path absolute, bare from its directory, ./x, ../x from a
// subdirectory, missing) over a representative slice of the model changelogs: well formed with 1..3 entries, final
// newline absent, every truncation class of every entry, and the first and last occurrence of every substitution
// (malformed header, trailer, date).
func fileEntryScenario(r *mc.Run) {
	type job struct {
		doc    Doc
		damage string
		pos    int
		rule   string
	}
	var jobs []job
	docs := append(fixedDocs(), mkDoc([]Pick{{}}, 0, nil, 0), mkDoc([]Pick{{Body: 4, Maint: 2, Date: 4, Opts: 3}}, 1, nil, 1), mkDoc([]Pick{{Body: 11, Dists: 2, Version: 3}}, 0, nil, 2), mkDoc([]Pick{{Body: base.body, Maint: base.maint, Opts: base.opts, Dists: base.dists}, {Body: base.body + 1, Maint: base.maint + 1}}, 0, []int{1}, 0))
	// large first blocks: the topmost entry is as long as 64 KiB-1, 64 KiB, 64 KiB+1, 128 KiB, 200 000 bytes (one very
	// long body line) or has 1500 body lines; alone and followed by a second entry. Intact and without the
	// final newline only (their prefixes are not explored).
	for _, d := range bigFirstBlockDocs() {
		jobs = append(jobs, job{d, "", 0, ""}, job{d, "no-final-newline", 0, ""})
	}
	for _, d := range docs {
		jobs = append(jobs, job{d, "", 0, ""}, job{d, "no-final-newline", 0, ""})
		text, lay := d.Render()
		seen := map[int]bool{}
		add := func(p int) {
			if p >= 0 && p <= len(text) && !seen[p] {
				seen[p] = true
				jobs = append(jobs, job{d, "prefix", p, ""})
			}
		}
		add(0)
		add(len(text))
		for i := range d.Entries {
			hdr := lay.Start[i] + len(d.Entries[i].header())
			for _, p := range []int{lay.Start[i], lay.Start[i] + 1, lay.Start[i] + 9, hdr - 1, hdr, hdr + 4, lay.DateStart[i] - 8, lay.DateStart[i], lay.DateStart[i] + 11, lay.TrailerNL[i] - 1, lay.TrailerNL[i], lay.End[i], lay.End[i] + 1} {
				add(p)
			}
		}
		for _, ru := range substRules {
			var positions []int
			if ru.DateTok >= 0 {
				for e := range d.Entries {
					toks := d.Entries[e].Date.tokens()
					off := lay.DateStart[e]
					for i := 0; i < ru.DateTok; i++ {
						off += len(toks[i]) + 1
					}
					positions = append(positions, off)
				}
			} else {
				for p := 0; p+len(ru.Old) <= len(text); p++ {
					if strings.HasPrefix(text[p:], ru.Old) && lay.Owner(p) >= 0 {
						positions = append(positions, p)
					}
				}
			}
			if len(positions) > 0 {
				jobs = append(jobs, job{d, "subst", positions[0], ru.Name})
				if len(positions) > 1 {
					jobs = append(jobs, job{d, "subst", positions[len(positions)-1], ru.Name})
				}
			}
		}
	}
	r.Scenario("file-entry-points", map[string]interface{}{"entry_points": entryPoints, "functions": "ParseFile (API Parse), ParseFileOne (API ParseOne: first entry)",
		"inputs": len(jobs), "large_first_blocks": "first entry of exactly 65535, 65536, 65537, 131072, 200000 bytes (one long line) and of 1500 body lines (69 KB), alone and followed by a second entry", "slice": "10 changelogs (1..3 entries, one with the byte classes): intact, final newline absent, 13 truncation points per entry, first and last occurrence of each substitution",
		"file_kinds": "regular file (also empty: prefix 0), symlink to it, named pipe fed by a goroutine, directory, missing", "oracle": "the property's clauses, and the same outcome as Parse / ParseOne through a reader on the same bytes; missing file / directory: error and no entries"}, len(jobs),
		func(i int, st *mc.Stats) bool {
			j := jobs[i]
			for _, ep := range entryPoints {
				for _, a := range apis {
					in := In{Doc: j.doc, API: a, Delivery: "whole", Damage: j.damage, Pos: j.pos, Rule: j.rule, Entry: ep}
					v, class := check("file-entry-points", in)
					if class == "" {
						continue
					}
					st.Evals++
					st.Traces++
					st.Nontrivial++
					st.Class(ep + "/" + map[string]string{"Parse": "ParseFile", "ParseOne": "ParseFileOne"}[a] + "/" + class)
					st.Violate(v)
					if (i == 3 || i == len(jobs)/2) && ep == "file-dotdot" && a == "Parse" && st.WantSample() {
						st.Sample(map[string]interface{}{"entry_point": ep, "api": "ParseFile", "damage": j.damage, "pos": j.pos, "rule": j.rule, "input_text": derive(in).text})
					}
				}
			}
			return true
		})
}

// bigFirstBlockDocs: changelogs whose first entry block has an exact large size (a long body line), or many lines.
func bigFirstBlockDocs() []Doc {
	var out []Doc
	mk := func(first Entry, second bool) Doc {
		d := Doc{Entries: []Entry{first}}
		if second {
			d.Entries = append(d.Entries, mkEntry(Pick{Body: 1, Date: 1}, 1, 2))
			d.Between = []int{1}
		}
		return d
	}
	for _, target := range []int{64<<10 - 1, 64 << 10, 64<<10 + 1, 128 << 10, 200000} {
		e := mkEntry(Pick{}, 0, 2)
		e.Body = []string{"  * short line before", "  * ", "  * short line after"}
		d := mk(e, false)
		_, lay := d.Render()
		e.Body[1] = "  * " + strings.Repeat("x", target-(lay.End[0]-lay.Start[0]))
		out = append(out, mk(e, false), mk(e, true))
	}
	for _, n := range []int{1500} { // many lines: about 69 KB (the library appends line by line, which is quadratic: kept moderate)
		e := mkEntry(Pick{Maint: 1, Date: 2}, 0, 2)
		e.Body = nil
		for i := 0; i < n; i++ {
			e.Body = append(e.Body, fmt.Sprintf("  * change number %05d of many in one upload", i))
		}
		out = append(out, mk(e, false), mk(e, true))
	}
	return out
}

// selfCheck: the renderer against a literal, the weekday rule against package time, the layout against the text.
func selfCheck(r *mc.Run) {
	d := mkDoc([]Pick{{}}, 0, nil, 0)
	text, _ := d.Render()
	want := "hello (1.0-1) unstable; urgency=low\n\n  * New upstream release.\n\n -- Jane Doe <jane@example.org>  Sun, 22 Mar 2015 11:56:00 +0100\n"
	if text != want {
		r.HarnessError("renderer self-check: %q", text)
	}
	for _, dt := range altDate {
		if int(dt.instant().Weekday()) != dt.weekday() {
			r.HarnessError("weekday rule disagrees with package time on %+v", dt)
		}
		if dt.instant().Format("Mon, 02 Jan 2006 15:04:05 -0700") != dt.render() {
			r.HarnessError("date rendering disagrees with package time on %+v: %s", dt, dt.render())
		}
	}
	for _, doc := range fixedDocs() {
		t, l := doc.Render()
		if l.Len != len(t) || l.Owner(0) != map[bool]int{true: -1, false: 0}[doc.Lead > 0] || l.Owner(l.End[0]) != -1 || l.Owner(l.End[0]-1) != 0 {
			r.HarnessError("layout owner self-check failed")
		}
		for i := range doc.Entries {
			if t[l.TrailerNL[i]] != '\n' || !strings.HasPrefix(t[l.Start[i]:], doc.Entries[i].Source+" (") ||
				!strings.HasPrefix(t[l.DateStart[i]:], doc.Entries[i].Date.render()) || l.End[i] != l.TrailerNL[i]+1 {
				r.HarnessError("layout self-check failed for entry %d", i)
			}
		}
	}
}

func Replay(scenario string, raw json.RawMessage) []*mc.Violation {
	var in In
	if err := mc.UnmarshalInput(raw, &in); err != nil {
		return nil
	}
	if v, _ := check(scenario, in); v != nil {
		return []*mc.Violation{v}
	}
	return nil
}
