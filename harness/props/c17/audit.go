package c17

import (
	"fmt"
	"strings"

	"verifharness/gen"
)

// Alphabet audit (gen.Audit*): literals that the tree under test contains and the committed baseline does not are
// turned into additional alternatives of the model for this run - a special-cased name, month, weekday, number of
// entries, line length, year ... then meets an input that contains it. On the unchanged tree nothing is added.

// base holds the sizes of the alternative tables before the audit extends them (the choice tree and the thorough
// full product stay on the base alphabets; the one-entry products and the audit scenarios use the extensions).
var base struct{ source, dists, opts, body, maint, date int }

// ext holds the sizes after the byte-class extension and before the audit extension.
var ext struct{ dists, opts, body, maint int }

// auditDocs are additional whole changelogs (entry counts around a new integer constant).
var auditDocs []Doc

var auditNote = map[string]interface{}{}

func has(s string, chars string) bool { return strings.ContainsAny(s, chars) }

func tokenIndex(list []string, t string) int {
	t = strings.TrimSuffix(t, ",")
	if len(t) < 3 {
		return -1
	}
	for i, m := range list {
		if strings.EqualFold(t[:3], m) && (len(t) == 3 || len(t) <= 9) {
			return i
		}
	}
	return -1
}

func applyAudit() {
	base.source, base.dists, base.opts, base.body, base.maint, base.date = len(altSource), len(altDists), len(altOpts), len(altBody), len(altMaint), len(altDate)
	// the byte-class alternatives (bytes.go) are always present, after the core ones
	altBody = append(altBody, extBody...)
	altMaint = append(altMaint, extMaint...)
	altOpts = append(altOpts, extOpts...)
	altDists = append(altDists, extDists...)
	ext.dists, ext.opts, ext.body, ext.maint = len(altDists), len(altOpts), len(altBody), len(altMaint)
	addDate := func(d Date) {
		for _, x := range altDate {
			if x == d {
				return
			}
		}
		if len(altDate) < base.date+10 {
			altDate = append(altDate, d)
		}
	}
	var used []string
	nSrc, nDist, nUrg, nKey, nMaint, nBody := 0, 0, 0, 0, 0, 0
	for _, raw := range gen.AuditStrings(nil, 24) {
		t := strings.TrimSpace(raw)
		if t == "" || has(t, "\n\r") {
			continue
		}
		used = append(used, t)
		if m := tokenIndex(months, t); m >= 0 {
			addDate(Date{2023, m + 1, 15, 10, 20, 30, 120})
		}
		if w := tokenIndex(wdays, t); w >= 0 {
			addDate(Date{2023, 1, 1 + w, 10, 20, 30, -60}) // 1 Jan 2023 is a Sunday
		}
		if gen.Nameish(t) && nSrc < 2 {
			altSource = append(altSource, t)
			nSrc++
		}
		if !has(t, " \t;(),") && nDist < 2 {
			altDists = append(altDists, t, "unstable "+t)
			nDist++
		}
		if !has(t, ",") && nUrg < 2 {
			altOpts = append(altOpts, []KV{{"urgency", t}})
			nUrg++
		}
		if !has(t, ",= \t") && nKey < 2 {
			altOpts = append(altOpts, []KV{{"urgency", "low"}, {t, "yes"}})
			nKey++
		}
		if !strings.Contains(t, "  ") && !has(t, "<>\t") && nMaint < 2 {
			altMaint = append(altMaint, "Jane "+t+" Doe <jane@example.org>", t+" <"+strings.Map(func(r rune) rune {
				if r == ' ' || r == '<' || r == '>' {
					return '.'
				}
				return r
			}, t)+"@example.org>")
			nMaint++
		}
		if nBody < 3 {
			altBody = append(altBody, []string{"  * " + t, "  " + t, "  * mentions " + t + " in the middle"})
			nBody++
		}
	}
	var ints []int64
	for _, v := range gen.AuditInts(0, 1<<20, 12) {
		ints = append(ints, v)
		n := int(v)
		if n >= 1 && n <= 40 && len(auditDocs) < 6 { // number of entries
			var ps []Pick
			for i := 0; i < n; i++ {
				ps = append(ps, Pick{Body: i % base.body % longBody, Date: i % base.date, Maint: i % base.maint, Dists: i % base.dists, Opts: i % base.opts})
			}
			auditDocs = append(auditDocs, mkDoc(ps, 0, nil, 0))
		}
		if n >= 1 && n <= 2000 { // number of body lines
			var lines []string
			for i := 0; i < n; i++ {
				lines = append(lines, fmt.Sprintf("  * line %d", i+1))
			}
			altBody = append(altBody, lines)
		}
		if n >= 5 { // length of a body line (without / with its newline: neighbours are audited too)
			altBody = append(altBody, []string{"  * " + strings.Repeat("x", n-4)})
		}
		if n >= 1 && n <= 9999 {
			addDate(Date{n, 6, 1, 12, 0, 0, 0}) // year
		}
		if n >= 1 && n <= 31 {
			addDate(Date{2022, 1, n, 12, 0, 0, 60}) // day of the month
		}
		if n >= 1 && n <= 12 {
			addDate(Date{2022, n, 10, 12, 0, 0, 60}) // month number
		}
		if n <= 23 {
			addDate(Date{2022, 5, 10, n, 0, 0, 60}) // hour
		}
		if n <= 59 {
			addDate(Date{2022, 5, 10, 13, n, n, 60}) // minute and second
		}
		if n%100 < 60 && n/100 <= 14 { // zone written as HHMM
			addDate(Date{2022, 5, 10, 13, 14, 15, n/100*60 + n%100})
			addDate(Date{2022, 5, 10, 13, 14, 15, -(n/100*60 + n%100)})
		}
	}
	if len(used) > 0 || len(ints) > 0 {
		auditNote["strings_used"] = used
		auditNote["ints_used"] = ints
		auditNote["added"] = fmt.Sprintf("sources +%d, distributions +%d, options +%d, bodies +%d, maintainers +%d, dates +%d, whole changelogs +%d",
			len(altSource)-base.source, len(altDists)-ext.dists, len(altOpts)-ext.opts, len(altBody)-ext.body, len(altMaint)-ext.maint, len(altDate)-base.date, len(auditDocs))
	}
}
