package c17

import (
	"fmt"
	"strings"
	"time"
)

// The entry-list model of a changelog and its renderer. Nothing here calls the library: the expected value of a
// parse is the model the text was rendered from.

type Ver struct {
	Epoch    uint   `json:"epoch"`
	Upstream string `json:"upstream"`
	Revision string `json:"revision"`
}

func (v Ver) render() string {
	s := v.Upstream
	if v.Revision != "" {
		s += "-" + v.Revision
	}
	if v.Epoch > 0 {
		s = fmt.Sprintf("%d:%s", v.Epoch, s)
	}
	return s
}

type KV struct {
	K string `json:"k"`
	V string `json:"v"`
}

// Date is a civil time with a zone offset in minutes east of UTC.
type Date struct {
	Y, Mo, D, H, Mi, S int
	OffMin             int
}

var wdays = []string{"Sun", "Mon", "Tue", "Wed", "Thu", "Fri", "Sat"}
var months = []string{"Jan", "Feb", "Mar", "Apr", "May", "Jun", "Jul", "Aug", "Sep", "Oct", "Nov", "Dec"}

// weekday by Sakamoto's method (independent of package time).
func (d Date) weekday() int {
	t := []int{0, 3, 2, 5, 0, 3, 5, 1, 4, 6, 2, 4}
	y := d.Y
	if d.Mo < 3 {
		y--
	}
	return (y + y/4 - y/100 + y/400 + t[d.Mo-1] + d.D) % 7
}

// tokens of the trailer date: "Sun," "22" "Mar" "2015" "11:56:00" "+0100"
func (d Date) tokens() []string {
	sign, off := "+", d.OffMin
	if off < 0 {
		sign, off = "-", -off
	}
	return []string{wdays[d.weekday()] + ",", fmt.Sprintf("%02d", d.D), months[d.Mo-1], fmt.Sprintf("%04d", d.Y),
		fmt.Sprintf("%02d:%02d:%02d", d.H, d.Mi, d.S), fmt.Sprintf("%s%02d%02d", sign, off/60, off%60)}
}

func (d Date) render() string { return strings.Join(d.tokens(), " ") }

// instant is the moment the date denotes (used only to compare with the parsed time).
func (d Date) instant() time.Time {
	return time.Date(d.Y, time.Month(d.Mo), d.D, d.H, d.Mi, d.S, 0, time.FixedZone("", d.OffMin*60))
}

type Entry struct {
	Source      string   `json:"source"`
	Version     Ver      `json:"version"`
	Dists       string   `json:"dists"`
	Opts        []KV     `json:"opts"`
	Body        []string `json:"body"` // change lines without their newline; "" is an empty line inside the body
	BlankBefore int      `json:"blank_before"`
	BlankAfter  int      `json:"blank_after"`
	Maint       string   `json:"maint"`
	Date        Date     `json:"date"`
}

func (e Entry) header() string {
	var o []string
	for _, kv := range e.Opts {
		o = append(o, kv.K+"="+kv.V)
	}
	return e.Source + " (" + e.Version.render() + ") " + e.Dists + "; " + strings.Join(o, ", ") + "\n"
}

// changeText is the verbatim text between the header line and the trailer line.
func (e Entry) changeText() string {
	var b strings.Builder
	b.WriteString(strings.Repeat("\n", e.BlankBefore))
	for _, l := range e.Body {
		b.WriteString(l + "\n")
	}
	b.WriteString(strings.Repeat("\n", e.BlankAfter))
	return b.String()
}

func (e Entry) trailer() string { return " -- " + e.Maint + "  " + e.Date.render() + "\n" }

type Doc struct {
	Entries []Entry `json:"entries"`
	Lead    int     `json:"lead_blank"`    // blank lines before the first entry
	Between []int   `json:"between_blank"` // blank lines between entry i and i+1
	Trail   int     `json:"trail_blank"`   // blank lines after the last entry
}

// Layout records where the parts of each entry are in the rendered text.
type Layout struct {
	Start, End []int // entry i occupies [Start[i], End[i]); End[i] is just after the trailer's newline
	DateStart  []int // offset of the first date token of entry i
	TrailerNL  []int // offset of the newline that ends the trailer of entry i
	Len        int
}

// Owner says which entry the byte at offset p belongs to; -1 for blank lines outside entries.
func (l Layout) Owner(p int) int {
	for i := range l.Start {
		if p >= l.Start[i] && p < l.End[i] {
			return i
		}
	}
	return -1
}

func (d Doc) Render() (string, Layout) {
	var b strings.Builder
	var l Layout
	b.WriteString(strings.Repeat("\n", d.Lead))
	for i, e := range d.Entries {
		l.Start = append(l.Start, b.Len())
		b.WriteString(e.header())
		b.WriteString(e.changeText())
		l.DateStart = append(l.DateStart, b.Len()+len(" -- "+e.Maint+"  "))
		b.WriteString(e.trailer())
		l.End = append(l.End, b.Len())
		l.TrailerNL = append(l.TrailerNL, b.Len()-1)
		if i < len(d.Entries)-1 {
			n := 1
			if i < len(d.Between) {
				n = d.Between[i]
			}
			b.WriteString(strings.Repeat("\n", n))
		}
	}
	b.WriteString(strings.Repeat("\n", d.Trail))
	l.Len = b.Len()
	return b.String(), l
}

// ---- the alternatives of the model --------------------------------------------------------------------------

var (
	altSource = []string{"hello", "lib-x+1.2"}
	altDists  = []string{"unstable", "unstable testing"}
	altOpts   = [][]KV{{{"urgency", "low"}}, {{"urgency", "medium"}, {"binary-only", "yes"}}}
	altBody   = [][]string{
		{"  * New upstream release."},
		{"  * First change.", "", "  * Second change; with a semicolon (and parentheses)."},
		{"  [ Jane Doe ]", "  * A long description of a change that had to be wrapped", "    onto a second line.  Closes: #123456"},
		{"  * Run foo -- bar to end the options -- twice."},
	}
	altMaint = []string{"Jane Doe <jane@example.org>", "J. R. Hacker-Smith <jr@example.org>"}
	altDate  = []Date{
		{2015, 3, 22, 11, 56, 0, 60},
		{2014, 11, 6, 23, 3, 40, -300},
		{2000, 1, 1, 0, 0, 0, 0},
		{2024, 2, 29, 12, 30, 59, 330},
	}
)

// altVersion: alternative a of the version of entry i out of n (revisions descend like in a real changelog, so
// that the default entries of one changelog differ from each other).
func altVersion(a, i, n int) Ver {
	if a == 0 {
		return Ver{0, "1.0", fmt.Sprint(n - i)}
	}
	return Ver{1, fmt.Sprintf("2.%d~rc1", n-i), ""}
}

// Pick is one alternative index per entry attribute.
type Pick struct{ Source, Version, Dists, Opts, Body, Before, After, Maint, Date int }

func mkEntry(p Pick, i, n int) Entry {
	return Entry{Source: altSource[p.Source], Version: altVersion(p.Version, i, n), Dists: altDists[p.Dists], Opts: altOpts[p.Opts],
		Body: altBody[p.Body], BlankBefore: 1 + p.Before, BlankAfter: 1 + p.After, Maint: altMaint[p.Maint], Date: altDate[p.Date]}
}

func mkDoc(ps []Pick, lead int, between []int, trail int) Doc {
	d := Doc{Lead: lead, Between: between, Trail: trail}
	for i, p := range ps {
		d.Entries = append(d.Entries, mkEntry(p, i, len(ps)))
	}
	return d
}

// fixedDocs: the multi-entry changelogs whose every prefix / deletion / substitution is explored.
func fixedDocs() []Doc {
	return []Doc{
		mkDoc([]Pick{{}, {Body: 1}}, 0, []int{1}, 0),
		mkDoc([]Pick{{1, 1, 1, 1, 2, 1, 1, 1, 1}, {Body: 3, Date: 2}}, 0, []int{1}, 0),
		mkDoc([]Pick{{Body: 1, Date: 3}, {Source: 1, Body: 3, Opts: 1}, {Body: 2, Version: 1, Date: 1}}, 1, []int{2, 1}, 2),
		mkDoc([]Pick{{Date: 2}, {Date: 3, Dists: 1}, {Maint: 1}}, 0, []int{1, 3}, 0),
		mkDoc([]Pick{{Body: 3, After: 1}, {Before: 1, Version: 1}}, 2, []int{1}, 1),
		mkDoc([]Pick{{Body: 2, Opts: 1, Dists: 1}, {Body: 0, Source: 1, Date: 1}, {Body: 1, Maint: 1, Date: 3}}, 0, []int{1, 1}, 0),
	}
}
