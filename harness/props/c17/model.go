package c17

import (
	"fmt"
	"strings"
	"time"
)

// The entry-list model of a changelog and its renderer. Nothing here calls the library: the expected value of a
// parse is the model the text was rendered from.

type Ver struct {
	Epoch    uint   `json:"epoch"`
	Upstream string `json:"upstream"`
	Revision string `json:"revision"`
}

func (v Ver) render() string {
	s := v.Upstream
	if v.Revision != "" {
		s += "-" + v.Revision
	}
	if v.Epoch > 0 {
		s = fmt.Sprintf("%d:%s", v.Epoch, s)
	}
	return s
}

type KV struct {
	K string `json:"k"`
	V string `json:"v"`
}

// Date is a civil time with a zone offset in minutes east of UTC.
type Date struct {
	Y, Mo, D, H, Mi, S int
	OffMin             int
}

var wdays = []string{"Sun", "Mon", "Tue", "Wed", "Thu", "Fri", "Sat"}
var months = []string{"Jan", "Feb", "Mar", "Apr", "May", "Jun", "Jul", "Aug", "Sep", "Oct", "Nov", "Dec"}

// weekday by Sakamoto's method (independent of package time).
func (d Date) weekday() int {
	t := []int{0, 3, 2, 5, 0, 3, 5, 1, 4, 6, 2, 4}
	y := d.Y
	if d.Mo < 3 {
		y--
	}
	return (y + y/4 - y/100 + y/400 + t[d.Mo-1] + d.D) % 7
}

// tokens of the trailer date: "Sun," "22" "Mar" "2015" "11:56:00" "+0100"
func (d Date) tokens() []string {
	sign, off := "+", d.OffMin
	if off < 0 {
		sign, off = "-", -off
	}
	return []string{wdays[d.weekday()] + ",", fmt.Sprintf("%02d", d.D), months[d.Mo-1], fmt.Sprintf("%04d", d.Y),
		fmt.Sprintf("%02d:%02d:%02d", d.H, d.Mi, d.S), fmt.Sprintf("%s%02d%02d", sign, off/60, off%60)}
}

func (d Date) render() string { return strings.Join(d.tokens(), " ") }

// instant is the moment the date denotes (used only to compare with the parsed time).
func (d Date) instant() time.Time {
	return time.Date(d.Y, time.Month(d.Mo), d.D, d.H, d.Mi, d.S, 0, time.FixedZone("", d.OffMin*60))
}

type Entry struct {
	Source      string   `json:"source"`
	Version     Ver      `json:"version"`
	Dists       string   `json:"dists"`
	Opts        []KV     `json:"opts"`
	OptSep      string   `json:"opt_sep,omitempty"` // how the options are separated in the header ("" = ", ")
	Body        []string `json:"body"`              // change lines without their newline; "" is an empty line inside the body
	BlankBefore int      `json:"blank_before"`
	BlankAfter  int      `json:"blank_after"`
	Maint       string   `json:"maint"`
	Date        Date     `json:"date"`
}

func (e Entry) header() string {
	var o []string
	for _, kv := range e.Opts {
		o = append(o, kv.K+"="+kv.V)
	}
	sep := e.OptSep
	if sep == "" {
		sep = ", "
	}
	return e.Source + " (" + e.Version.render() + ") " + e.Dists + "; " + strings.Join(o, sep) + "\n"
}

// changeText is the verbatim text between the header line and the trailer line.
func (e Entry) changeText() string {
	var b strings.Builder
	b.WriteString(strings.Repeat("\n", e.BlankBefore))
	for _, l := range e.Body {
		b.WriteString(l + "\n")
	}
	b.WriteString(strings.Repeat("\n", e.BlankAfter))
	return b.String()
}

func (e Entry) trailer() string { return " -- " + e.Maint + "  " + e.Date.render() + "\n" }

type Doc struct {
	Entries []Entry `json:"entries"`
	Lead    int     `json:"lead_blank"`     // blank lines before the first entry
	Between []int   `json:"between_blank"`  // blank lines between entry i and i+1
	Trail   int     `json:"trail_blank"`    // blank lines after the last entry
	CRLF    bool    `json:"crlf,omitempty"` // every line of the file ends in CR LF (layout offsets are not valid then)
}

// Layout records where the parts of each entry are in the rendered text.
type Layout struct {
	Start, End []int // entry i occupies [Start[i], End[i]); End[i] is just after the trailer's newline
	DateStart  []int // offset of the first date token of entry i
	TrailerNL  []int // offset of the newline that ends the trailer of entry i
	Len        int
}

// Owner says which entry the byte at offset p belongs to; -1 for blank lines outside entries.
func (l Layout) Owner(p int) int {
	for i := range l.Start {
		if p >= l.Start[i] && p < l.End[i] {
			return i
		}
	}
	return -1
}

func (d Doc) Render() (string, Layout) {
	var b strings.Builder
	var l Layout
	b.WriteString(strings.Repeat("\n", d.Lead))
	for i, e := range d.Entries {
		l.Start = append(l.Start, b.Len())
		b.WriteString(e.header())
		b.WriteString(e.changeText())
		l.DateStart = append(l.DateStart, b.Len()+len(" -- "+e.Maint+"  "))
		b.WriteString(e.trailer())
		l.End = append(l.End, b.Len())
		l.TrailerNL = append(l.TrailerNL, b.Len()-1)
		if i < len(d.Entries)-1 {
			n := 1
			if i < len(d.Between) {
				n = d.Between[i]
			}
			b.WriteString(strings.Repeat("\n", n))
		}
	}
	b.WriteString(strings.Repeat("\n", d.Trail))
	l.Len = b.Len()
	if d.CRLF {
		return strings.Replace(b.String(), "\n", "\r\n", -1), l
	}
	return b.String(), l
}

// ---- the alternatives of the model --------------------------------------------------------------------------

// The alternatives are chosen so that any "normalisation" of a field (trimming or collapsing blanks, expanding tabs,
// changing case, Unicode normalisation, splitting on every '=' or '-', moving the time to another zone, dropping
// seconds) changes at least one of them. Index 0 is the default of the choice tree.
var (
	altSource = []string{"hello", "lib-x+1.2", "0ad"}
	altDists  = []string{"unstable", "unstable testing", "UNRELEASED", "bookworm-backports stable-proposed-updates"}
	altOpts   = [][]KV{
		{{"urgency", "low"}},
		{{"urgency", "medium"}, {"binary-only", "yes"}},
		{{"urgency", "HIGH"}, {"x-note", "Two  Words"}},             // case and interior blanks of a value
		{{"urgency", "low"}, {"x-expr", "a=b"}, {"closes", "0123"}}, // a value containing '='; leading zero
	}
	altOptSep = []string{", ", ","}
	altBody   = [][]string{
		{"  * New upstream release."},
		{"  * First change.", "", "  * Second change; with a semicolon (and parentheses)."},
		{"  [ Jane Doe ]", "  * A long description of a change that had to be wrapped", "    onto a second line.  Closes: #123456"},
		{"  * Run foo -- bar to end the options -- twice."},
		{"  * First paragraph.", "  ", "  * Second paragraph after a line holding only the indentation."}, // whitespace-only separator
		{"  * A line with a hard break at its end  ", "    and its continuation."},                        // trailing blanks
		{"  * A line that ends in a tab\t", "  * A last line that ends in one blank "},                    // trailing tab / blank on the last line
		{"  * Item.", " \t ", "  * Item after a separator of blank, tab, blank."},                         // whitespace-only with a tab
		{"  * Columns   aligned    with     runs of blanks", "      six blanks of indentation"},           // interior and leading runs
		{"  * Tabs:", "  \t- a line indented with blanks and a tab", "  * a\tb\t\tc"},                     // tabs
		{"  * " + strings.Repeat("A very long line. ", 250) + "end"},                                      // > 4096 bytes: longer than bufio's buffer
		{"  * Größe, naïve café, e\u0301 (decomposed), Ω ≠ Ω, 日本語 ✓", "  * «quoted» — dash"},              // non-ASCII; NFC != NFD
		{"  -- two blanks, then dashes: not a trailer", "  * -- ", "  --"},                                // near-trailers
		firstCharLines("  "),   // lines whose first non-blank character is # - * + . : ; [ ( < or a digit, indented by 2
		firstCharLines("    "), // ... by 4 (wrapped continuation lines, e.g. "    #1012345).")
		firstCharLines(" \t"),  // ... by a blank and a tab
		{"  * Odd lines follow:", "  ---", "  ***", "  ###", "  ...", "  ;;;", " ", "   ", "  hello (1.0) unstable; urgency=low", "  -- Not A. Trailer <x@example.org>  Sun, 22 Mar 2015 11:56:00 +0100", "  * end."}, // punctuation only, blanks only, header-like, trailer-like
	}
	altMaint = []string{
		"Jane Doe <jane@example.org>",
		"J. R. Hacker-Smith <jr@example.org>",
		"José Ñandú <jose@example.org>",                // non-ASCII
		"Jane DOE <Jane.Doe@Example.ORG>",              // case
		"\"Doe, Jane\" (work) <jd+deb@example.org>",    // quotes, comma, parentheses, plus
		"Team -- of - dashes <team@lists.example.org>", // "--" inside the name
	}
	altDate = []Date{
		{2015, 3, 22, 11, 56, 0, 60},
		{2014, 11, 6, 23, 3, 40, -300},
		{2000, 1, 1, 0, 0, 0, 0},
		{2024, 2, 29, 12, 30, 59, 330},
		{2019, 12, 31, 23, 59, 59, -480}, // another year in UTC
		{2021, 6, 15, 0, 0, 1, 840},      // +1400: the previous day in UTC
		{1999, 7, 4, 4, 5, 6, -210},      // -0330
	}
)

// firstCharLines: a change item wrapped so that the continuation lines begin (after the indentation) with each of
// the characters a line-oriented reader might give a meaning to.
func firstCharLines(indent string) []string {
	out := []string{"  * Fix build (Closes:"}
	for _, c := range []string{"#", "-", "*", "+", ".", ":", ";", "[", "(", "<", "7"} {
		out = append(out, indent+c+"1012345"+c+" and more)"+c)
	}
	return out
}

// altVersion: alternative a of the version of entry i out of n (revisions descend like in a real changelog, so
// that the default entries of one changelog differ from each other).
func altVersion(a, i, n int) Ver {
	switch a {
	case 0:
		return Ver{0, "1.0", fmt.Sprint(n - i)}
	case 1:
		return Ver{1, fmt.Sprintf("2.%d~rc1", n-i), ""}
	case 2:
		return Ver{0, "1.0+dfsg~beta2", fmt.Sprintf("0.1~bpo12+%d", n-i)}
	}
	return Ver{0, "1.2-3", fmt.Sprint(n - i)} // hyphen inside the upstream part: rendered 1.2-3-<r>
}

const nVersion = 4

// Pick is one alternative index per entry attribute.
type Pick struct{ Source, Version, Dists, Opts, OptSep, Body, Before, After, Maint, Date int }

func mkEntry(p Pick, i, n int) Entry {
	return Entry{Source: altSource[p.Source], Version: altVersion(p.Version, i, n), Dists: altDists[p.Dists], Opts: altOpts[p.Opts], OptSep: altOptSep[p.OptSep],
		Body: altBody[p.Body], BlankBefore: 1 + p.Before, BlankAfter: 1 + p.After, Maint: altMaint[p.Maint], Date: altDate[p.Date]}
}

func mkDoc(ps []Pick, lead int, between []int, trail int) Doc {
	d := Doc{Lead: lead, Between: between, Trail: trail}
	for i, p := range ps {
		d.Entries = append(d.Entries, mkEntry(p, i, len(ps)))
	}
	return d
}

const longBody = 10 // index of the very long line in altBody (kept out of the per-byte damage scenarios)

// fixedDocs: the multi-entry changelogs whose every prefix / deletion / substitution is explored.
func fixedDocs() []Doc {
	return []Doc{
		mkDoc([]Pick{{}, {Body: 1}}, 0, []int{1}, 0),
		mkDoc([]Pick{{Source: 1, Version: 1, Dists: 1, Opts: 1, Body: 2, Before: 1, After: 1, Maint: 1, Date: 1}, {Body: 3, Date: 2}}, 0, []int{1}, 0),
		mkDoc([]Pick{{Body: 4, Date: 3, Maint: 2}, {Source: 1, Body: 5, Opts: 2, OptSep: 1}, {Body: 6, Version: 2, Date: 4}}, 1, []int{2, 1}, 2),
		mkDoc([]Pick{{Date: 5, Body: 7}, {Date: 6, Dists: 2, Body: 8, Maint: 4}, {Maint: 5, Body: 9, Version: 3}}, 0, []int{1, 3}, 0),
		mkDoc([]Pick{{Body: 11, After: 1, Opts: 3}, {Before: 1, Version: 1, Body: 12, Dists: 3}}, 2, []int{1}, 1),
		mkDoc([]Pick{{Body: 14, Opts: 1, Dists: 1}, {Body: 16, Source: 2, Date: 1}, {Body: 1, Maint: 3, Date: 3}}, 0, []int{1, 1}, 0),
		// byte classes (the extended alternatives start at base.*; valid once applyAudit has run)
		mkDoc([]Pick{{Body: base.body, Maint: base.maint, Opts: base.opts}, {Body: base.body + 1, Maint: base.maint + 2, Dists: base.dists + 1, Opts: base.opts + 1}}, 0, []int{1}, 0),
	}
}
