package c17

import (
	"bufio"
	"fmt"
	"io"
	"os"
	"path/filepath"
	"reflect"
	"strings"
	"sync"

	"pault.ag/go/debian/changelog"

	"verifharness/mc"
)

// File entry points: changelog.ParseFile / changelog.ParseFileOne, with the path given in several forms. The text is
// written to a scratch file; the relative forms change the working directory, which is process-wide, so every use of
// a file entry point (and the restoring of the directory) is serialised under cwdMu.
var entryPoints = []string{"file-abs", "file-bare", "file-dot", "file-dotdot", "file-missing"}

var cwdMu sync.Mutex

func isFileEntry(e string) bool { return strings.HasPrefix(e, "file-") }

// viaFile runs ParseFile (API Parse) or ParseFileOne (API ParseOne: the first entry only; io.EOF = no entry).
func viaFile(in In, text string) (entries []changelog.ChangelogEntry, err error) {
	dir, e := os.MkdirTemp("", "verif-c17-")
	if e != nil {
		panic("harness: " + e.Error())
	}
	defer os.RemoveAll(dir)
	if e := os.Mkdir(filepath.Join(dir, "sub"), 0o755); e != nil {
		panic("harness: " + e.Error())
	}
	if e := os.WriteFile(filepath.Join(dir, "changelog"), []byte(text), 0o644); e != nil {
		panic("harness: " + e.Error())
	}
	path, cd := filepath.Join(dir, "changelog"), ""
	switch in.Entry {
	case "file-bare":
		path, cd = "changelog", dir
	case "file-dot":
		path, cd = "./changelog", dir
	case "file-dotdot":
		path, cd = "../changelog", filepath.Join(dir, "sub")
	case "file-missing":
		path = filepath.Join(dir, "no-such-changelog")
	}
	cwdMu.Lock()
	defer cwdMu.Unlock()
	if cd != "" {
		old, e := os.Getwd()
		if e != nil {
			panic("harness: " + e.Error())
		}
		if e := os.Chdir(cd); e != nil {
			panic("harness: " + e.Error())
		}
		defer os.Chdir(old)
	}
	if in.API == "Parse" {
		es, e := changelog.ParseFile(path)
		return es, e
	}
	one, e := changelog.ParseFileOne(path)
	if e == io.EOF && one == nil {
		return nil, nil
	}
	if e != nil {
		return nil, e
	}
	if one == nil {
		return nil, fmt.Errorf("harness: ParseFileOne returned (nil, nil)")
	}
	return []changelog.ChangelogEntry{*one}, nil
}

func errClass(err error) string {
	switch err {
	case nil:
		return "nil"
	case io.EOF:
		return "io.EOF"
	case io.ErrUnexpectedEOF:
		return "io.ErrUnexpectedEOF"
	}
	return "other error"
}

func sameEntries(a, b []changelog.ChangelogEntry) bool {
	if len(a) != len(b) {
		return false
	}
	for i := range a {
		x, y := a[i], b[i]
		_, ox := x.When.Zone()
		_, oy := y.When.Zone()
		if !x.When.Equal(y.When) || ox != oy {
			return false
		}
		x.When = y.When
		if !reflect.DeepEqual(x, y) {
			return false
		}
	}
	return true
}

// checkFileAgainstReader: the file entry point must behave like the reader entry point on the same bytes
// (entries field by field, or the same class of error); a missing file is an error and no entries.
func checkFileAgainstReader(scen string, in In, text string, got []changelog.ChangelogEntry, gotErr error, features []string) *mc.Violation {
	if in.Entry == "file-missing" {
		if gotErr == nil || len(got) != 0 {
			return vt(text, scen, "missing-file-is-an-error", in, "an error, no entries", fmt.Sprintf("%d entries, error %v", len(got), gotErr), features...)
		}
		return nil
	}
	var want []changelog.ChangelogEntry
	var wantErr error
	mc.Guard(func() {
		if in.API == "Parse" {
			es, e := changelog.Parse(strings.NewReader(text))
			want, wantErr = es, e
		} else {
			one, e := changelog.ParseOne(bufio.NewReader(strings.NewReader(text)))
			switch {
			case e == io.EOF && one == nil:
			case e != nil:
				wantErr = e
			case one != nil:
				want = []changelog.ChangelogEntry{*one}
			}
		}
	})
	if errClass(gotErr) != errClass(wantErr) || (gotErr == nil && !sameEntries(got, want)) {
		return vt(text, scen, "file-entry-point-agrees-with-reader", in,
			fmt.Sprintf("as through the reader: %d entries, error %v", len(want), wantErr), fmt.Sprintf("%d entries, error %v: %+v", len(got), gotErr, got), features...)
	}
	return nil
}
