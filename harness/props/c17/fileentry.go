package c17

import (
	"bufio"
	"fmt"
	"io"
	"os"
	"path/filepath"
	"reflect"
	"strings"
	"sync"
	"syscall"
	"time"

	"pault.ag/go/debian/changelog"

	"verifharness/mc"
)

// File entry points: changelog.ParseFile / changelog.ParseFileOne, with the path given in several forms. The text is
// written to a scratch file; the relative forms change the working directory, which is process-wide, so every use of
// a file entry point (and the restoring of the directory) is serialised under cwdMu.
var entryPoints = []string{"file-abs", "file-bare", "file-dot", "file-dotdot", "file-symlink", "file-fifo", "file-missing", "file-dir"}

var cwdMu sync.Mutex

func isFileEntry(e string) bool { return strings.HasPrefix(e, "file-") }

// viaFile runs ParseFile (API Parse) or ParseFileOne (API ParseOne: the first entry only; io.EOF = no entry).
func viaFile(in In, text string) (entries []changelog.ChangelogEntry, err error) {
	dir, e := os.MkdirTemp("", "verif-c17-")
	if e != nil {
		panic("harness: " + e.Error())
	}
	defer os.RemoveAll(dir)
	if e := os.Mkdir(filepath.Join(dir, "sub"), 0o755); e != nil {
		panic("harness: " + e.Error())
	}
	if e := os.WriteFile(filepath.Join(dir, "changelog"), []byte(text), 0o644); e != nil {
		panic("harness: " + e.Error())
	}
	path, cd := filepath.Join(dir, "changelog"), ""
	var fifoDone chan struct{}
	switch in.Entry {
	case "file-bare":
		path, cd = "changelog", dir
	case "file-dot":
		path, cd = "./changelog", dir
	case "file-dotdot":
		path, cd = "../changelog", filepath.Join(dir, "sub")
	case "file-missing":
		path = filepath.Join(dir, "no-such-changelog")
	case "file-dir":
		path = filepath.Join(dir, "sub") // a directory
	case "file-symlink":
		path = filepath.Join(dir, "link")
		if e := os.Symlink("changelog", path); e != nil {
			panic("harness: " + e.Error())
		}
	case "file-fifo":
		// a named pipe: not a regular file (Stat reports size 0); a goroutine writes the bytes once a reader opens it
		path = filepath.Join(dir, "fifo")
		if e := syscall.Mkfifo(path, 0o600); e != nil {
			panic("harness: mkfifo: " + e.Error())
		}
		fifoDone = make(chan struct{})
		go func() {
			defer close(fifoDone)
			w, e := os.OpenFile(path, os.O_WRONLY, 0) // blocks until the pipe is opened for reading
			if e != nil {
				return
			}
			w.Write([]byte(text)) // smaller than the pipe buffer; EPIPE if the reader has gone is fine
			w.Close()
		}()
	}
	if cd != "" {
		cwdMu.Lock()
		defer cwdMu.Unlock()
		old, e := os.Getwd()
		if e != nil {
			panic("harness: " + e.Error())
		}
		if e := os.Chdir(cd); e != nil {
			panic("harness: " + e.Error())
		}
		defer os.Chdir(old)
	}
	call := func() {
		if in.API == "Parse" {
			es, e := changelog.ParseFile(path)
			entries, err = es, e
			return
		}
		one, e := changelog.ParseFileOne(path)
		switch {
		case e == io.EOF && one == nil:
		case e != nil:
			err = e
		case one == nil:
			err = fmt.Errorf("harness: ParseFileOne returned (nil, nil)")
		default:
			entries = []changelog.ChangelogEntry{*one}
		}
	}
	if fifoDone == nil {
		call()
		return entries, err
	}
	var pmsg interface{}
	finished := mc.WithTimeout(120*time.Second, func() {
		defer func() { pmsg = recover() }()
		call()
	})
	// release a writer that is still waiting for a reader (the library never opened the pipe)
	if r, e := os.OpenFile(path, os.O_RDONLY|syscall.O_NONBLOCK, 0); e == nil {
		select {
		case <-fifoDone:
		case <-time.After(5 * time.Second):
		}
		r.Close()
	}
	if !finished {
		return nil, fmt.Errorf("harness: timeout: ParseFile on a named pipe did not return within 120 s")
	}
	if pmsg != nil {
		panic(pmsg)
	}
	return entries, err
}

func errClass(err error) string {
	switch err {
	case nil:
		return "nil"
	case io.EOF:
		return "io.EOF"
	case io.ErrUnexpectedEOF:
		return "io.ErrUnexpectedEOF"
	}
	return "other error"
}

func sameEntries(a, b []changelog.ChangelogEntry) bool {
	if len(a) != len(b) {
		return false
	}
	for i := range a {
		x, y := a[i], b[i]
		_, ox := x.When.Zone()
		_, oy := y.When.Zone()
		if !x.When.Equal(y.When) || ox != oy {
			return false
		}
		x.When = y.When
		if !reflect.DeepEqual(x, y) {
			return false
		}
	}
	return true
}

// checkFileAgainstReader: the file entry point must behave like the reader entry point on the same bytes
// (entries field by field, or the same class of error); a missing file is an error and no entries.
func checkFileAgainstReader(scen string, in In, text string, got []changelog.ChangelogEntry, gotErr error, features []string) *mc.Violation {
	if in.Entry == "file-missing" || in.Entry == "file-dir" {
		if gotErr == nil || len(got) != 0 {
			return vt(text, scen, map[string]string{"file-missing": "missing-file-is-an-error", "file-dir": "directory-is-an-error"}[in.Entry], in, "an error, no entries", fmt.Sprintf("%d entries, error %v", len(got), gotErr), features...)
		}
		return nil
	}
	var want []changelog.ChangelogEntry
	var wantErr error
	mc.Guard(func() {
		if in.API == "Parse" {
			es, e := changelog.Parse(strings.NewReader(text))
			want, wantErr = es, e
		} else {
			one, e := changelog.ParseOne(bufio.NewReader(strings.NewReader(text)))
			switch {
			case e == io.EOF && one == nil:
			case e != nil:
				wantErr = e
			case one != nil:
				want = []changelog.ChangelogEntry{*one}
			}
		}
	})
	if errClass(gotErr) != errClass(wantErr) || (gotErr == nil && !sameEntries(got, want)) {
		return vt(text, scen, "file-entry-point-agrees-with-reader", in,
			fmt.Sprintf("as through the reader: %d entries, error %v", len(want), wantErr), fmt.Sprintf("%d entries, error %v: %+v", len(got), gotErr, got), features...)
	}
	return nil
}
