//go:build verif

package c19

import (
	"sync/atomic"

	"pault.ag/go/debian/verifhook"
)

// On the instrumented build the order of every `for ... range <map>` of the module is an explorer choice (sorted keys
// by default). otherOrders re-executes one ordering call once per single scan in every other order (all permutations
// up to 5 keys - the scenarios have at most 4 sources and 8 binaries - reverse, rotations and transpositions beyond),
// then once per pair of scans both reversed, and returns the outcomes: the same-outcome clause compares them with the
// default execution. On the unchanged tree OrderDSCForBuild scans no map, so this adds no execution.
func init() {
	mapOrderNote = "instrumented build: every map scan inside the ordering call is under explorer control; every execution with one scan in another order (all permutations up to 5 keys; reverse + rotations + transpositions beyond) and with two scans reversed is compared with the default-order execution"
	otherOrders = func(run func() outcome) []outcome {
		type occ struct{ site, n int }
		runWith := func(plan map[int][]int) (outcome, []occ) {
			var seen []occ
			ctx := &verifhook.Ctx{MapOrder: func(site, n int) []int {
				i := len(seen)
				seen = append(seen, occ{site, n})
				if p, ok := plan[i]; ok && len(p) == n {
					return p
				}
				return nil
			}}
			verifhook.Bind(ctx)
			defer verifhook.Unbind()
			return run(), seen
		}
		_, base := runWith(nil)
		if len(base) == 0 {
			return nil
		}
		var out []outcome
		execs := 0
		for i, o := range base {
			for _, p := range perms(o.n) {
				if execs >= 2000 {
					atomic.AddInt64(&mapOrderCapped, 1)
					return out
				}
				r, _ := runWith(map[int][]int{i: p})
				execs++
				out = append(out, r)
			}
		}
		for a := 0; a < len(base); a++ {
			for b := a + 1; b < len(base); b++ {
				if base[a].n < 2 || base[b].n < 2 || execs >= 2000 {
					continue
				}
				r, _ := runWith(map[int][]int{a: rev(base[a].n), b: rev(base[b].n)})
				execs++
				out = append(out, r)
			}
		}
		atomic.AddInt64(&mapOrderExecs, int64(execs))
		return out
	}
}

func rev(n int) []int {
	p := make([]int, n)
	for i := range p {
		p[i] = n - 1 - i
	}
	return p
}

func perms(n int) [][]int {
	if n <= 1 {
		return nil
	}
	var out [][]int
	isID := func(p []int) bool {
		for i, v := range p {
			if v != i {
				return false
			}
		}
		return true
	}
	if n <= 5 {
		var rec func(cur []int, used []bool)
		rec = func(cur []int, used []bool) {
			if len(cur) == n {
				if !isID(cur) {
					out = append(out, append([]int(nil), cur...))
				}
				return
			}
			for i := 0; i < n; i++ {
				if !used[i] {
					used[i] = true
					rec(append(cur, i), used)
					used[i] = false
				}
			}
		}
		rec(nil, make([]bool, n))
		return out
	}
	id := make([]int, n)
	for i := range id {
		id[i] = i
	}
	out = append(out, rev(n))
	for r := 1; r < n; r++ {
		out = append(out, append(append([]int{}, id[r:]...), id[:r]...))
	}
	for i := 0; i < n; i++ {
		for j := i + 1; j < n; j++ {
			p := append([]int{}, id...)
			p[i], p[j] = p[j], p[i]
			out = append(out, p)
		}
	}
	return out
}
