package c19

import "fmt"

// naming is one way of naming the sources and binaries of a model that differs from the default (in which only the
// first source shares its name with its own first binary). The model's edges come from BINARIES only; a source's
// name never provides anything.
type naming struct {
	name  string
	alias map[string]string
	noBin int // this source builds no binary at all (-1: none)
}

// namingVariants for n sources: a source T named like another source P's first / second binary (T with and without
// binaries of its own; all input orders put T before and after P), a source named like its own second binary, every
// source named like its own first binary, names that are prefixes of each other.
func namingVariants(n int) []naming {
	out := []naming{{name: "default (src-a builds src-a)", noBin: -1}}
	// (the first source shares its name with its own first binary, so renaming IT would rename that binary too and make
	// two sources build one binary — outside the alphabet: T ranges over the other sources)
	for t := 1; t < n; t++ {
		for p := 0; p < n; p++ {
			if t == p {
				continue
			}
			for k := 1; k <= 2; k++ {
				if p == 0 && k == 1 {
					continue // bin(0,1) IS the name of source 0: two sources of one name are outside the alphabet
				}
				b := binName(p, k)
				out = append(out, naming{fmt.Sprintf("%s named like %s's binary %s", srcName(t), srcName(p), b), map[string]string{srcName(t): b}, -1})
				out = append(out, naming{fmt.Sprintf("%s named like %s's binary %s and building nothing", srcName(t), srcName(p), b), map[string]string{srcName(t): b}, t})
			}
		}
	}
	for i := 1; i < n; i++ {
		out = append(out, naming{fmt.Sprintf("%s named like its own second binary", srcName(i)), map[string]string{srcName(i): binName(i, 2)}, -1})
	}
	all := map[string]string{}
	for i := 1; i < n; i++ {
		all[binName(i, 1)] = srcName(i)
	}
	if n > 1 {
		out = append(out, naming{"every source builds a binary of its own name", all, -1})
		out = append(out, naming{"src-b named src-a-extra (a source name is a prefix of another)", map[string]string{srcName(1): srcName(0) + "-extra"}, -1})
		out = append(out, naming{"bin-b1 named like bin-a2 plus a suffix, src-b named like a prefix of src-a", map[string]string{binName(1, 1): binName(0, 2) + "0", srcName(1): "src"}, -1})
	}
	return out
}
