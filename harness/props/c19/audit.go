package c19

// Alphabet audit for C19: literals a change introduced into the code under test (empty on the unchanged tree)
// are fed into the alphabets — names as binary / source / outside-package names, as build architecture and as
// entries of restriction lists, field-name-like words as extra .dsc fields, integers as sizes (relations per
// field, binaries per source, number of sources).

import (
	"fmt"
	"strings"

	"verifharness/gen"
	"verifharness/mc"
)

// renderedFields: field names the .dsc renderer writes itself (an audit word equal to one of them is not added again).
var renderedFields = map[string]bool{"format": true, "source": true, "binary": true, "architecture": true, "version": true,
	"maintainer": true, "standards-version": true, "build-depends": true, "build-depends-arch": true, "build-depends-indep": true,
	"package-list": true, "files": true}

func pkgNameOK(s string) bool {
	if !gen.Nameish(s) || len(s) < 2 || len(s) > 30 || strings.ToLower(s) != s {
		return false
	}
	if c := s[0]; !(c >= 'a' && c <= 'z' || c >= '0' && c <= '9') {
		return false
	}
	if strings.HasPrefix(s, "src-") || strings.HasPrefix(s, "bin-") || strings.HasPrefix(s, "pad") || s == otherPkg || s == thirdPkg || s == unknownPkg {
		return false
	}
	return true
}

func archWordOK(s string) bool { return pkgNameOK(s) && archNameOK(s) }

func fieldWordOK(s string) bool {
	if len(s) < 2 || len(s) > 30 || renderedFields[strings.ToLower(s)] {
		return false
	}
	for i := 0; i < len(s); i++ {
		c := s[i]
		if !(c >= 'a' && c <= 'z' || c >= 'A' && c <= 'Z' || c >= '0' && c <= '9' || c == '-') {
			return false
		}
	}
	return s[0] != '-'
}

func auditNames() []string  { return gen.AuditStrings(pkgNameOK, 6) }
func auditArchs() []string  { return gen.AuditStrings(archWordOK, 4) }
func auditFields() []string { return gen.AuditStrings(fieldWordOK, 8) }

// auditDecos: decorations whose restriction lists contain an audited word t: t, t-any, any-t, linux-t, alone and
// next to known entries, negated and not, on b and on an alternative before b.
func auditDecos(seen map[string]bool, name func([]rel) string) []deco {
	var out []deco
	one := func(a ...alt) []rel { return []rel{{a}} }
	for _, t := range auditArchs() {
		lists := []struct {
			neg bool
			e   []string
		}{{false, []string{t}}, {true, []string{t}}, {false, []string{"amd64", t}}, {true, []string{"amd64", t}}, {true, []string{t, "i386"}}}
		if !strings.Contains(t, "-") {
			lists = append(lists, []struct {
				neg bool
				e   []string
			}{{false, []string{t + "-any"}}, {true, []string{t + "-any"}}, {false, []string{"any-" + t}}, {true, []string{"any-" + t}},
				{false, []string{"linux-" + t}}, {true, []string{"linux-" + t, "kfreebsd-any"}}}...)
		}
		for _, al := range lists {
			for _, rs := range [][]rel{
				one(alt{Name: phB, Archs: al.e, Neg: al.neg}),
				one(alt{Name: otherPkg, Archs: al.e, Neg: al.neg}, alt{Name: phB}),
				one(alt{Name: phB, Archs: al.e, Neg: al.neg}, alt{Name: phT}),
			} {
				if n := name(rs); !seen[n] {
					seen[n] = true
					out = append(out, deco{n, rs})
				}
			}
		}
	}
	return out
}

// auditScenarios runs the extra scenarios; nothing happens when the audit delta is empty.
func auditScenarios(r *mc.Run) {
	names, archWords, fields := auditNames(), auditArchs(), auditFields()
	sizes := gen.AuditInts(1, 40, 9)
	if len(names)+len(archWords)+len(fields)+len(sizes) == 0 {
		return
	}
	p2, p3 := permutations(2), permutations(3)
	both := archs[:2]
	// names in three roles
	for q, t := range names {
		for _, role := range []struct {
			name  string
			alias map[string]string
		}{
			{"binary", map[string]string{binName(0, 1): t, binName(1, 2): t + "-dev"}},
			{"source", map[string]string{srcName(0): t}},
			{"outside", map[string]string{otherPkg: t, unknownPkg: t, thirdPkg: t}},
		} {
			explore(r, scen{name: fmt.Sprintf("audit-name%d-as-%s-n2", q, role.name), n: 2, k: 1, perms: p2, archSet: both, maxDeps: -1, decoN: nCore, layout: true, alias: role.alias})
			explore(r, scen{name: fmt.Sprintf("audit-name%d-as-%s-n3", q, role.name), n: 3, k: 1, perms: p3, archSet: both, maxDeps: 2, decoN: nBasic, alias: role.alias})
		}
	}
	// architecture words: as build architecture (t and kfreebsd-t) and inside the restriction lists (auditDecos)
	if len(archWords) > 0 {
		as := append([]string{}, both...)
		for _, t := range archWords {
			as = append(as, t)
			if !strings.Contains(t, "-") {
				as = append(as, "kfreebsd-"+t)
			}
		}
		explore(r, scen{name: "audit-architectures-n2", n: 2, k: 1, perms: p2, archSet: as, maxDeps: -1, decoN: len(decos)})
		explore(r, scen{name: "audit-architectures-n3", n: 3, k: 1, perms: p3, archSet: as, maxDeps: 1, decoN: len(decos)})
	}
	// field-name-like words as extra fields of every .dsc
	if len(fields) > 0 {
		var extra []string
		for _, t := range fields {
			extra = append(extra, t+": bin-a1, bin-b1", "X-"+t+": "+t)
		}
		explore(r, scen{name: "audit-extra-fields-n2", n: 2, k: 1, perms: p2, archSet: both, maxDeps: -1, decoN: nBasic, layout: true, extra: extra})
		explore(r, scen{name: "audit-extra-fields-n3", n: 3, k: 0, perms: p3, archSet: both, maxDeps: -1, decoN: nBasic, extra: extra})
	}
	if len(sizes) > 0 {
		auditSizes(r, sizes)
	}
}

// auditSizes: every audited integer v (with v-1, v+1) as number of relations in a field, number of binaries of a
// source, number of sources.
func auditSizes(r *mc.Run, sizes []int64) {
	var ins []In
	one3 := []graph{}
	for _, g := range baseGraphs(3) {
		if strings.Trim(string(g[:3]), "\x01") == "" {
			one3 = append(one3, g)
		}
	}
	p3 := permutations(3)
	for _, v64 := range sizes {
		v := int(v64)
		// (a) v relations in one field of every source, all dependency structures over three one-binary sources
		if v <= maxPad {
			for _, g := range one3 {
				for sp := range spreads {
					for f := 0; f < 3; f++ {
						for kind := range padKinds {
							for pos := 0; pos < 3; pos++ {
								for _, pm := range p3 {
									in := g.expand(3)
									for i := 0; i < 3; i++ {
										in.Spread[i], in.PadKind[i], in.Pos[i] = sp, kind, pos
										in.Pad[i] = []int{1, 1, 1}
										in.Pad[i][f] = v
									}
									in.Perm = pm
									ins = append(ins, in)
								}
							}
						}
					}
				}
			}
		}
		// (b) v binaries per source, dependencies on the first / a middle / the last one
		if v >= 2 && v <= maxNB {
			picks := []int{0, 1, (v + 1) / 2, v}
			for _, a := range picks {
				for _, b := range picks {
					for fb := 0; fb < 2; fb++ {
						for _, pm := range permutations(2) {
							in := blank(2)
							in.NB = []int{v, v}
							in.Dep[0][1], in.Dep[1][0] = a, b
							in.FoldBin = []int{fb, fb}
							in.Perm = pm
							ins = append(ins, in)
						}
					}
				}
			}
		}
		// (c) v sources: chain, reversed chain, cycle, star out, star in; input orders identity, reverse, two rotations
		if v >= 2 && v <= maxN {
			orders := [][]int{nil, nil, nil, nil}
			for i := 0; i < v; i++ {
				orders[0] = append(orders[0], i)
				orders[1] = append(orders[1], v-1-i)
				orders[2] = append(orders[2], (i+1)%v)
				orders[3] = append(orders[3], (i+v/2)%v)
			}
			for shape := 0; shape < 5; shape++ {
				for _, pm := range orders {
					in := blank(v)
					for i := 0; i < v; i++ {
						switch shape {
						case 0:
							if i+1 < v {
								in.Dep[i][i+1] = 1
							}
						case 1:
							if i > 0 {
								in.Dep[i][i-1] = 1
							}
						case 2:
							in.Dep[i][(i+1)%v] = 1
						case 3:
							if i > 0 {
								in.Dep[0][i] = 1
							}
						case 4:
							if i > 0 {
								in.Dep[i][0] = 1
							}
						}
					}
					in.Perm = pm
					ins = append(ins, in)
				}
			}
		}
	}
	const chunk = 512
	nsh := (len(ins) + chunk - 1) / chunk
	r.Scenario("audit-sizes", map[string]interface{}{"audited_integers_with_neighbours": sizes, "inputs": len(ins),
		"used_as": "relations in one field of every source (three one-binary sources, all structures × spread × field × kind × position × order); binaries per source (n=2); number of sources (chain, reversed chain, cycle, stars × 4 orders)"},
		nsh, func(sh int, st *mc.Stats) bool {
			cache := parseCache{}
			for q := sh * chunk; q < len(ins) && q < (sh+1)*chunk; q++ {
				if q%64 == 0 && r.Expired() {
					return false
				}
				if len(cache) > 8192 {
					cache = parseCache{}
				}
				res := check("audit-sizes", ins[q], cache)
				if res.problem != nil {
					r.HarnessError("%s", res.problem.msg)
					return false
				}
				st.Evals++
				st.Traces++
				if res.edges > 0 {
					st.Nontrivial++
				}
				st.Class(res.class)
				st.Violate(res.violation())
			}
			return true
		})
}
