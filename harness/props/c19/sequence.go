package c19

// Call sequences: OrderDSCForBuild is called two (thorough: three) times in a row, on ONE goroutine, with models
// that are NOT name-compatible with each other (a binary name owned by another source than before, a source
// dropped while its binaries are still depended on, the same binaries under renamed sources, a source that no
// longer builds the binary depended on). Oracle per call exactly as for a call made alone. Anything the library
// keeps between calls (pooled maps, caches keyed by names) shows here; all other scenarios use one naming scheme,
// so stale state always agrees with the current model there.

import (
	"fmt"
	"strings"

	"verifharness/mc"
)

// seqVariant: how the names of a later model differ from the default naming.
type seqVariant struct {
	name  string
	alias map[string]string
}

func seqVariants() []seqVariant {
	swap := func(a, b string) map[string]string { return map[string]string{a: b, b: a} }
	shift := map[string]string{}
	for i := 0; i < 3; i++ {
		j := (i + 1) % 3
		shift[srcName(i)] = srcName(j)
		for k := 1; k <= 2; k++ {
			shift[binName(i, k)] = binName(j, k)
		}
	}
	return []seqVariant{
		{"default-names", nil},
		{"first-binaries-swapped-between-src-a-and-src-b", swap(binName(0, 1), binName(1, 1))},
		{"bin-a1-and-bin-b2-swapped", swap(binName(0, 1), binName(1, 2))},
		{"same-binaries-renamed-sources", map[string]string{srcName(0): "src-x", srcName(1): "src-y", srcName(2): "src-z"}},
		{"source-names-swapped", swap(srcName(0), srcName(1))},
		{"every-source-takes-the-next-one's-names", shift},
	}
}

// seqModels builds the family of later models: base graphs × naming variants × "ghost" dependency (a dependency
// on a default-named binary that NO source of this model builds — a source that was dropped, or one that does not
// build it any more — written as an unknown package: the model has no edge for it).
func seqModels(bases []In, quick bool) []In {
	var out []In
	ghosts := []string{binName(0, 1), binName(0, 2), binName(1, 1), binName(1, 2), binName(2, 1)}
	for _, b := range bases {
		for _, v := range seqVariants() {
			m := clone(b)
			for i := range m.Ver {
				m.Ver[i] = (i + len(out)) % len(srcVersions)  // the later models also vary the sources' own versions
				m.ArchF[i] = (i + len(out)) % len(archFields) // … and their Architecture fields
			}
			m.Alias = v.alias
			built := map[string]bool{}
			for i := 0; i < m.N; i++ {
				for k := 1; k <= m.NB[i]; k++ {
					built[m.bin(i, k)] = true
				}
			}
			out = append(out, m)
			for _, g := range ghosts {
				if built[g] {
					continue
				}
				for _, i := range []int{0, m.N - 1} {
					if i == m.N-1 && (m.N == 1 || quick) {
						continue // quick: the ghost dependency sits in the first source only
					}
					gm := clone(b)
					gm.Alias = map[string]string{unknownPkg: g}
					for k, x := range v.alias {
						gm.Alias[k] = x
					}
					gm.Unknown[i] = 1 + i%2
					out = append(out, gm)
				}
			}
		}
	}
	return out
}

func basesFor(n int, keep func(g graph) bool) []In { return basesFrom(baseGraphs(n), n, keep) }

func basesFrom(gs []graph, n int, keep func(g graph) bool) []In {
	var out []In
	for _, g := range gs {
		if keep == nil || keep(g) {
			out = append(out, g.expand(n))
		}
	}
	return out
}

// checkSeq: the oracle for a sequence — every call judged as if made alone, in order, on the calling goroutine.
func checkSeq(scen string, in In, cache parseCache) verdict {
	for k, m := range in.Seq {
		m.Seq = nil
		res := check(scen, m, cache)
		if res.problem != nil || res.class == "invalid-input" {
			return res
		}
		if res.clause != "" {
			inner := res
			k := k
			res.feats = append([]string{"call-sequence", fmt.Sprintf("call-%d-of-%d", k+1, len(in.Seq))}, inner.feats...)
			res.build = func() *mc.Violation {
				iv := inner.build()
				var names []string
				for _, x := range in.Seq {
					names = append(names, fmt.Sprintf("[%s | %s]", seqDescribe(x), x.Arch))
				}
				v := mc.V(scen, inner.clause, in, fmt.Sprintf("call %d of the sequence %s, judged as a call made alone: %s", k+1, strings.Join(names, " then "), iv.Expected),
					iv.Observed, res.feats...)
				v.Text = iv.Text
				return v
			}
			return res
		}
	}
	return verdict{class: "sequence-ok"}
}

func seqDescribe(in In) string {
	var s []string
	for _, p := range in.Perm {
		var b []string
		for k := 1; k <= in.NB[p]; k++ {
			b = append(b, in.bin(p, k))
		}
		s = append(s, in.src(p)+"{"+strings.Join(b, ",")+"}")
	}
	return strings.Join(s, " ") + " " + describe(in, in.modelEdges())
}

// callSequences runs the scenario on ONE worker goroutine (one shard), so that whatever the library pools or caches
// flows deterministically from one call to the next.
func callSequences(r *mc.Run) {
	oneBin := func(n, maxDeps int) func(g graph) bool {
		return func(g graph) bool { return strings.Trim(string(g[:n]), "\x01") == "" && g.deps(n) <= maxDeps }
	}
	twoBin := func(n, maxDeps int) func(g graph) bool {
		return func(g graph) bool { return strings.Trim(string(g[:n]), "\x02") == "" && g.deps(n) <= maxDeps }
	}
	// earlier models: default names
	var first []In
	first = append(first, basesFor(2, func(g graph) bool { return !r.Quick() || g.deps(2) <= 1 })...) // quick: the earlier model matters through its names; thorough takes all 25
	first = append(first, basesFor(3, oneBin(3, 1))...)
	first = append(first, basesFor(3, twoBin(3, 1))...)
	// later models
	var laterBases []In
	laterBases = append(laterBases, basesFor(1, nil)...)
	laterBases = append(laterBases, basesFor(2, nil)...)
	laterBases = append(laterBases, basesFor(3, oneBin(3, 1))...)
	// self-dependencies: every n=1 graph with the diagonal; the n=2 ones with a self-dependency and at most 2 dependencies
	laterBases = append(laterBases, basesFrom(enumGraphs(1, true), 1, func(g graph) bool { return g.selfDeps(1) > 0 })...)
	selfN2 := basesFrom(enumGraphs(2, true), 2, func(g graph) bool {
		return g.selfDeps(2) > 0 && (g.deps(2) == 1 || (g.deps(2) == 2 && g[0] == 1 && g[1] == 1))
	})
	laterBases = append(laterBases, selfN2...)
	first = append(first, basesFrom(enumGraphs(2, true), 2, func(g graph) bool { return g.selfDeps(2) == 1 && g.deps(2) == 1 })...)
	later := seqModels(laterBases, r.Quick())
	archPairs := [][2]string{{"amd64", "i386"}, {"i386", "amd64"}}
	var lead []In // thorough: a third model in front
	if !r.Quick() {
		lead = append(lead, basesFor(2, func(g graph) bool { return g.deps(2) == 0 })...)
		lead = append(lead, basesFor(2, func(g graph) bool { return g.deps(2) == 2 && g[0] == 2 && g[1] == 2 })[:2]...)
	}
	bounds := map[string]interface{}{"earlier_models_default_names": len(first), "later_models": len(later),
		"later_models_are": "n=1, n=2 (all 25 graphs), n=3 (one binary each, ≤1 dependency) × naming variants × ghost dependency (none, or source 0 / the last source depends on a default-named binary no source of the model builds)",
		"naming_variants": func() []string {
			var x []string
			for _, v := range seqVariants() {
				x = append(x, v.name)
			}
			return x
		}(), "architectures_of_the_two_calls": archPairs, "input_orders_of_the_later_model": "all permutations", "leading_third_models_thorough": len(lead),
		"single_worker_goroutine": "yes: one shard, all calls in sequence on one goroutine, so pooled / cached state flows from call to call"}
	r.Scenario("call-sequences", bounds, 1, func(_ int, st *mc.Stats) bool {
		kept := map[string]int{}
		cache := parseCache{} // memoises ParseDsc per rendered row (names included in the key); the ordering calls are never memoised
		run := func(seq []In) bool {
			in := In{Seq: seq}
			res := checkSeq("call-sequences", in, cache)
			if res.problem != nil {
				r.HarnessError("%s", res.problem.msg)
				return false
			}
			if res.class == "invalid-input" {
				r.HarnessError("call-sequences: invalid model generated")
				return false
			}
			st.Evals += int64(len(seq))
			st.Traces += int64(len(seq))
			st.States++
			st.Transitions += int64(len(seq))
			st.Nontrivial++
			st.Class(res.class)
			if res.clause != "" {
				key := res.clause + "|" + strings.Join(res.feats, ",")
				if kept[key] < 3 {
					kept[key]++
					st.Violate(res.violation())
				}
			}
			return true
		}
		cnt := 0
		for i1, m1 := range first {
			for i2, m2 := range later {
				for ip, pm := range permutations(m2.N) {
					for ia, ap := range archPairs {
						if r.Quick() && (i1+i2+ip)%2 != ia {
							continue // quick: the two architecture orders alternate over the pairs; thorough runs both for every pair
						}
						cnt++
						if cnt%512 == 0 && r.Expired() {
							return false
						}
						a, b := clone(m1), clone(m2)
						a.Arch, b.Arch, b.Perm = ap[0], ap[1], pm
						if len(lead) == 0 {
							if !run([]In{a, b}) {
								return false
							}
							continue
						}
						for _, m0 := range lead {
							c := clone(m0)
							c.Arch = ap[1]
							if !run([]In{c, a, b}) {
								return false
							}
						}
					}
				}
			}
		}
		return true
	})
}
