// Package c19: build ordering respects build-dependencies between the given sources.
//
// ALL build-dependency graphs over n sources (each pair: no dependency / on the first binary / on the second
// binary of the other source) are enumerated, rendered as .dsc text, parsed with control.ParseDsc and ordered
// with control.OrderDSCForBuild; field placement, decorations, folding and an unknown dependency are
// bounded-deviation points of the explorer; architecture and input order are full choice points.
package c19

import (
	"bufio"
	"encoding/json"
	"fmt"
	"os/exec"
	"reflect"
	"runtime/debug"
	"sort"
	"strings"
	"sync"
	"sync/atomic"

	"pault.ag/go/debian/control"
	"pault.ag/go/debian/dependency"

	"verifharness/mc"
	"verifharness/props/reg"
)

func init() { reg.Register(&reg.Prop{ID: "C19", Run: Run, Replay: Replay}) }

// ---------------------------------------------------------------------------------------------------------
// input model

// In is the replayable input: the whole model of one case.
type In struct {
	N       int
	NB      []int             // binaries of source i: 1 or 2
	Dep     [][]int           // Dep[i][j]: 0 none, 1 / 2: source i build-depends on the first / second binary of source j
	Field   [][]int           // which field carries it: 0 Build-Depends, 1 Build-Depends-Arch, 2 Build-Depends-Indep
	Deco    [][]int           // how it is written, index into decos
	Unknown []int             // per source: 0 none, 1 / 2: a dependency on an unknown package first / last in Build-Depends
	Fold    []int             // per source: 1 = its build-dependency fields are folded (one relation per continuation line)
	FoldBin []int             // per source: 1 = Binary: folded onto a continuation line
	Spread  []int             // per source: 0 = Field decides; 1..4 = its q-th dependency goes to field spreads[Spread][q mod len] (+Field mod 3): several fields used at once
	Pad     [][]int           // per source and field: 0..7 extra relations on packages outside the source set
	PadKind []int             // per source: what the extra relations look like, index into padKinds
	Pos     []int             // per source: the real relations come first (0) / in the middle (1) / last (2) among the extra ones
	Arch    string            // amd64 | i386 | kfreebsd-amd64 (or a name the alphabet audit supplied)
	Alias   map[string]string `json:",omitempty"` // alphabet audit: default name (src-a, bin-a1, otherpkg, zlib1g-dev) -> name used instead, in text AND model
	Extra   []string          `json:",omitempty"` // alphabet audit: extra unknown fields "Name: value" written into every .dsc
	ArchF   []int             `json:",omitempty"` // per source: its own Architecture field, index into archFields (0 = any); never affects the model's edges
	Ver     []int             `json:",omitempty"` // per source: its own Version, index into srcVersions (0 = 1.0-1, the value every older artefact has)
	Seq     []In              `json:",omitempty"` // call sequence: these models are ordered one after the other on one goroutine (the other fields are unused)
	Perm    []int             // input slice order: position p holds source Perm[p]
}

var fieldNames = []string{"Build-Depends", "Build-Depends-Arch", "Build-Depends-Indep"}

const (
	otherPkg   = "otherpkg"
	thirdPkg   = "thirdpkg" // stands in for "a binary of a third source" when there is no third source
	unknownPkg = "zlib1g-dev"
	phB        = "\x00b" // placeholder: the binary the dependency is on
	phT        = "\x00t" // placeholder: the first binary of a third source (neither the depending nor the target one)
)

// alt / rel: the model of one alternative / one relation.
type alt struct {
	Name                         string
	Subst                        bool
	Qual                         string   // multiarch qualifier: "native", "any"
	Ver                          string   // "(>= 1)" without the parentheses
	Archs                        []string // architecture restriction entries, without "!"
	Neg                          bool     // the entries are negated
	Profiles                     string   // build-profile restriction formula as written, e.g. "<!nocheck>"
	ArchOpen, ArchClose, ArchSep string   // SPELLING only: white space (blank, tab, a fold "\n ") after '[', before ']', between the names
}

type rel struct{ Alts []alt }

func (a alt) String() string {
	if a.Subst {
		return "${" + a.Name + "}"
	}
	s := a.Name
	if a.Qual != "" {
		s += ":" + a.Qual
	}
	if a.Ver != "" {
		s += " (" + a.Ver + ")"
	}
	if len(a.Archs) > 0 {
		var x []string
		for _, ar := range a.Archs {
			if a.Neg {
				ar = "!" + ar
			}
			x = append(x, ar)
		}
		sep := " "
		if a.ArchSep != "" {
			sep = a.ArchSep
		}
		s += " [" + a.ArchOpen + strings.Join(x, sep) + a.ArchClose + "]"
	}
	if a.Profiles != "" {
		s += " " + a.Profiles
	}
	return s
}

func (r rel) String() string {
	var x []string
	for _, a := range r.Alts {
		x = append(x, a.String())
	}
	return strings.Join(x, " | ")
}

// splitArch: the model's own reading of a Debian architecture name or wildcard as the triple (abi, os, cpu):
// "cpu" = gnu-linux-cpu; "os-cpu" = gnu-os-cpu when both parts are concrete, any-os-cpu when one of them is "any"
// (a two-part wildcard leaves the ABI open); "abi-os-cpu" as written; "any" = any-any-any.
func splitArch(name string) (abi, os, cpu string) {
	if name == "any" {
		return "any", "any", "any"
	}
	parts := strings.SplitN(name, "-", 3)
	switch len(parts) {
	case 1:
		return "gnu", "linux", parts[0]
	case 2:
		if parts[0] == "any" || parts[1] == "any" {
			return "any", parts[0], parts[1]
		}
		return "gnu", parts[0], parts[1]
	}
	return parts[0], parts[1], parts[2]
}

// entryMatches: one architecture-list entry (concrete name or wildcard) against a concrete build architecture.
func entryMatches(entry, buildArch string) bool {
	ea, eo, ec := splitArch(entry)
	ba, bo, bc := splitArch(buildArch)
	return (ea == "any" || ea == ba) && (eo == "any" || eo == bo) && (ec == "any" || ec == bc)
}

// admits: a restriction list admits the architecture iff (some entry matches it) != (the list is negated).
func (a alt) admits(arch string) bool {
	if len(a.Archs) == 0 {
		return true
	}
	hit := false
	for _, x := range a.Archs {
		if entryMatches(x, arch) {
			hit = true
		}
	}
	return hit != a.Neg
}

// chosen: "per relation the first alternative applicable to the architecture" (substvars are not packages).
// Build-profile restrictions in the alphabet are all-negated (<!nocheck>), i.e. satisfied when no profile is
// active, so they never remove an alternative; multiarch qualifiers and versions do not either.
func (r rel) chosen(arch string) (int, bool) {
	for i, a := range r.Alts {
		if a.Subst {
			continue
		}
		if a.admits(arch) {
			return i, true
		}
	}
	return 0, false
}

// deco is one way of writing a dependency on a binary: relation templates over the placeholders phB / phT.
type deco struct {
	name string
	rels []rel
}

// archLists: the architecture-restriction alphabet. One- and multi-entry lists, negated and not, containing the
// build architecture in the first / a later / no entry, OS and CPU wildcards, concrete non-linux names.
var archLists = []struct {
	neg bool
	e   []string
}{
	{false, []string{"amd64"}}, {true, []string{"amd64"}},
	{false, []string{"amd64", "i386"}}, {false, []string{"arm64", "amd64"}}, {false, []string{"amd64", "arm64"}}, {false, []string{"arm64", "s390x"}},
	{true, []string{"amd64", "i386"}}, {true, []string{"arm64", "amd64"}}, {true, []string{"amd64", "arm64"}}, {true, []string{"arm64", "s390x"}},
	{true, []string{"arm64", "s390x", "i386"}}, {false, []string{"arm64", "s390x", "i386"}},
	{false, []string{"linux-any"}}, {true, []string{"linux-any"}}, {false, []string{"kfreebsd-any"}}, {true, []string{"kfreebsd-any"}},
	{true, []string{"linux-any", "kfreebsd-any"}}, {true, []string{"kfreebsd-any", "hurd-any"}}, {false, []string{"kfreebsd-any", "linux-any"}},
	{false, []string{"any-amd64"}}, {true, []string{"any-amd64"}}, {false, []string{"any-amd64", "any-i386"}},
	{false, []string{"any-i386", "any-arm64"}}, {true, []string{"any-i386", "any-arm64"}},
	{false, []string{"kfreebsd-amd64", "hurd-i386"}}, {true, []string{"kfreebsd-amd64"}}, {false, []string{"kfreebsd-amd64", "amd64"}},
	{false, []string{"any"}},
	// three-part names: ABI given explicitly / left open
	{false, []string{"musl-linux-amd64"}}, {true, []string{"musl-linux-amd64"}}, {false, []string{"musl-linux-any"}}, {true, []string{"gnu-linux-any", "kfreebsd-any"}},
	{false, []string{"linux-amd64"}}, {false, []string{"gnu-any-any"}},
}

const (
	nBasic = 7  // the original alphabet (indices are stable: old artefacts replay)
	nCore  = 24 // + hand-picked compositions
)

// decos: basic (0..6), core (7..23), then the full product shapes × archLists.
var decos = func() []deco {
	b, t, o := phB, phT, otherPkg
	one := func(a ...alt) []rel { return []rel{{a}} }
	d := []deco{
		{"", one(alt{Name: b})},
		{"", one(alt{Name: b, Ver: ">= 1"})},
		{"", one(alt{Name: b}, alt{Name: o})},
		{"", one(alt{Name: o, Archs: []string{"i386"}}, alt{Name: b})},
		{"", one(alt{Name: b, Archs: []string{"amd64"}})},
		{"", one(alt{Name: b, Archs: []string{"amd64"}, Neg: true})},
		{"", []rel{{[]alt{{Name: "misc:Depends", Subst: true}}}, {[]alt{{Name: b}}}}},
		// core
		{"", one(alt{Name: b, Archs: []string{"amd64", "i386"}, Neg: true})},
		{"", one(alt{Name: b, Archs: []string{"arm64", "amd64"}, Neg: true})},
		{"", one(alt{Name: o, Archs: []string{"amd64", "i386"}, Neg: true}, alt{Name: b})},
		{"", one(alt{Name: o, Archs: []string{"arm64", "s390x"}, Neg: true}, alt{Name: b})},
		{"", one(alt{Name: b, Archs: []string{"arm64", "amd64"}})},
		{"", one(alt{Name: o, Archs: []string{"linux-any"}}, alt{Name: b})},
		{"", one(alt{Name: b, Archs: []string{"linux-any", "kfreebsd-any"}, Neg: true})},
		{"", one(alt{Name: o, Archs: []string{"any-i386", "any-arm64"}}, alt{Name: b})},
		{"", one(alt{Name: b, Profiles: "<!nocheck>"})},
		{"", one(alt{Name: b, Qual: "native"})},
		{"", one(alt{Name: b, Qual: "any", Ver: ">= 1", Archs: []string{"amd64"}, Profiles: "<!nocheck>"})},
		{"", one(alt{Name: "x:Depends", Subst: true}, alt{Name: b})},
		{"", one(alt{Name: o, Archs: []string{"i386"}}, alt{Name: "x:Depends", Subst: true}, alt{Name: b})},
		{"", one(alt{Name: t, Archs: []string{"amd64", "i386"}, Neg: true}, alt{Name: b})},
		{"", one(alt{Name: b, Archs: []string{"i386", "arm64"}, Neg: true}, alt{Name: t})},
		{"", one(alt{Name: b, Ver: ">= 1", Archs: []string{"amd64", "arm64"}, Profiles: "<!nocheck !nodoc>"})},
		{"", one(alt{Name: o, Ver: "<< 2", Archs: []string{"kfreebsd-any"}}, alt{Name: b, Ver: ">= 1"})},
	}
	if len(d) != nCore {
		panic("c19: core decoration count")
	}
	seen := map[string]bool{}
	name := func(rs []rel) string {
		var x []string
		for _, r := range rs {
			x = append(x, r.String())
		}
		return strings.NewReplacer(phB, "b", phT, "T", otherPkg, "other").Replace(strings.Join(x, ", "))
	}
	for k := range d {
		d[k].name = name(d[k].rels)
		seen[d[k].name] = true
	}
	// full: restriction on b itself / on an unknown or third-source alternative before b / on b before another
	// alternative / on b as a LATER alternative (after one that is never admitted)
	for _, al := range archLists {
		shapes := [][]rel{
			one(alt{Name: b, Archs: al.e, Neg: al.neg}),
			one(alt{Name: o, Archs: al.e, Neg: al.neg}, alt{Name: b}),
			one(alt{Name: b, Archs: al.e, Neg: al.neg}, alt{Name: o}),
			one(alt{Name: t, Archs: al.e, Neg: al.neg}, alt{Name: b}),
			one(alt{Name: b, Archs: al.e, Neg: al.neg}, alt{Name: t}),
			one(alt{Name: o, Archs: []string{"arm64", "s390x"}}, alt{Name: b, Archs: al.e, Neg: al.neg}),
		}
		for _, rs := range shapes {
			if n := name(rs); !seen[n] {
				seen[n] = true
				d = append(d, deco{n, rs})
			}
		}
	}
	// version constraints: all five operators × numbers below / equal to / above / in another epoch than the source
	// versions in srcVersions — so that every (operator, satisfied / equal / not satisfied) case occurs against every
	// provider version; also with an alternative behind it and as a later alternative
	firstVersionDeco = len(d)
	for _, op := range []string{">=", "<=", ">>", "<<", "="} {
		for _, num := range []string{"0", "1.0-1", "4:12", "1.203", "1.204~"} {
			rs := one(alt{Name: b, Ver: op + " " + num})
			if n := name(rs); !seen[n] {
				seen[n] = true
				d = append(d, deco{n, rs})
			}
		}
		for _, rs := range [][]rel{
			one(alt{Name: b, Ver: op + " 4:12"}, alt{Name: t}),
			one(alt{Name: o, Archs: []string{"arm64", "s390x"}}, alt{Name: b, Ver: op + " 1.203"}),
		} {
			if n := name(rs); !seen[n] {
				seen[n] = true
				d = append(d, deco{n, rs})
			}
		}
	}
	// spellings of a restriction list: white space or a fold after '[' / before ']' / between the names — same meaning
	for _, al := range []struct {
		neg bool
		e   []string
	}{{true, []string{"amd64"}}, {false, []string{"amd64"}}, {true, []string{"amd64", "i386"}}, {true, []string{"arm64", "amd64"}}, {false, []string{"arm64", "amd64"}}} {
		for _, sp := range [][3]string{{" ", "", ""}, {"\n ", "", ""}, {"\t", "", ""}, {"", " ", ""}, {" ", " ", "  "}, {"", "\n ", "\n "}} {
			for _, rs := range [][]rel{
				one(alt{Name: b, Archs: al.e, Neg: al.neg, ArchOpen: sp[0], ArchClose: sp[1], ArchSep: sp[2]}),
				one(alt{Name: o, Archs: al.e, Neg: al.neg, ArchOpen: sp[0], ArchClose: sp[1], ArchSep: sp[2]}, alt{Name: b}),
			} {
				if n := name(rs); !seen[n] {
					seen[n] = true
					d = append(d, deco{n, rs})
				}
			}
		}
	}
	nStatic = len(d)
	// alphabet audit: restriction lists built from architecture-like words a change introduced (none on the unchanged tree)
	d = append(d, auditDecos(seen, name)...)
	return d
}()

// nStatic: number of decorations that do not come from the alphabet audit (set while decos is built);
// firstVersionDeco..nStatic-1 are the version-constraint decorations.
var nStatic, firstVersionDeco int

func decoNames(n int) []string {
	var x []string
	for _, d := range decos[:n] {
		x = append(x, d.name)
	}
	return x
}

// decorate returns the relation(s) for a dependency on binary b written in style d; t is the first binary of a
// third source (or thirdPkg).
func decorate(d int, b, t, o string) []rel {
	out := make([]rel, len(decos[d].rels))
	for k, r := range decos[d].rels {
		out[k].Alts = append([]alt(nil), r.Alts...)
		for q := range out[k].Alts {
			switch out[k].Alts[q].Name {
			case phB:
				out[k].Alts[q].Name = b
			case phT:
				out[k].Alts[q].Name = t
			case otherPkg:
				out[k].Alts[q].Name = o
			}
		}
	}
	return out
}

// third: the first binary of the lowest-numbered source that is neither i nor j.
func (in In) third(i, j int) string {
	for t := 0; t < in.N; t++ {
		if t != i && t != j {
			return in.bin(t, 1)
		}
	}
	return in.al(thirdPkg)
}

func srcName(i int) string { return "src-" + string(rune('a'+i)) }

// binName: the k-th binary of source i. The FIRST binary of the first source carries the source's own name (source
// hello builds binary hello — the usual case in Debian); all other names differ from every source name by default.
func binName(i, k int) string {
	if i == 0 && k == 1 {
		return srcName(0)
	}
	return fmt.Sprintf("bin-%c%d", 'a'+i, k)
}

// al / src / bin: the names actually used (text and model alike) — the defaults unless the audit renamed one.
func (in In) al(s string) string {
	if t, ok := in.Alias[s]; ok {
		return t
	}
	return s
}

func (in In) src(i int) string { return in.al(srcName(i)) }

func (in In) bin(i, k int) string { return in.al(binName(i, k)) }

func (in In) valid() bool {
	n := in.N
	if n < 1 || n > maxN || len(in.NB) != n || len(in.Dep) != n || len(in.Field) != n || len(in.Deco) != n ||
		len(in.Unknown) != n || len(in.Fold) != n || len(in.FoldBin) != n || len(in.Perm) != n {
		return false
	}
	if !archNameOK(in.Arch) {
		return false
	}
	seen := make([]bool, n)
	for i := 0; i < n; i++ {
		if in.NB[i] < 0 || in.NB[i] > maxNB || // (0 binaries: only in the naming scenario)
			len(in.Dep[i]) != n || len(in.Field[i]) != n || len(in.Deco[i]) != n {
			return false
		}
		if in.Perm[i] < 0 || in.Perm[i] >= n || seen[in.Perm[i]] {
			return false
		}
		seen[in.Perm[i]] = true
		if in.Unknown[i] < 0 || in.Unknown[i] > 2 || in.Fold[i] < 0 || in.Fold[i] > 1 || in.FoldBin[i] < 0 || in.FoldBin[i] > 1 {
			return false
		}
		if in.FoldBin[i] == 1 && in.NB[i] < 2 {
			return false
		}
	}
	if len(in.Spread) != n || len(in.Pad) != n || len(in.PadKind) != n || len(in.Pos) != n || len(in.Ver) != n {
		return false
	}
	for _, v := range in.Ver {
		if v < 0 || v >= len(srcVersions) {
			return false
		}
	}
	if len(in.ArchF) != n {
		return false
	}
	for _, v := range in.ArchF {
		if v < 0 || v >= len(archFields) {
			return false
		}
	}
	for i := 0; i < n; i++ {
		if in.Spread[i] < 0 || in.Spread[i] >= len(spreads) || in.PadKind[i] < 0 || in.PadKind[i] >= len(padKinds) ||
			in.Pos[i] < 0 || in.Pos[i] > 2 || len(in.Pad[i]) != 3 {
			return false
		}
		for _, p := range in.Pad[i] {
			if p < 0 || p > maxPad {
				return false
			}
		}
	}
	for i := 0; i < n; i++ {
		for j := 0; j < n; j++ {
			d := in.Dep[i][j]
			if d < 0 || d > in.NB[j] { // the diagonal (a source build-depending on its own binary) is allowed
				return false
			}
			if in.Field[i][j] < 0 || in.Field[i][j] > 2 || in.Deco[i][j] < 0 || in.Deco[i][j] >= len(decos) {
				return false
			}
		}
	}
	return true
}

// Bounds of what an input may contain at all (the enumerated alphabets are far smaller; the alphabet audit may go
// up to these when a change introduces an integer constant).
const (
	maxN   = 8
	maxNB  = 16
	maxPad = 64
)

// archNameOK: a build architecture the model can read: "cpu" or "os-cpu", package-name characters only.
func archNameOK(s string) bool {
	if s == "" || len(s) > 40 || strings.Count(s, "-") > 2 || strings.HasPrefix(s, "-") || strings.HasSuffix(s, "-") {
		return false
	}
	for i := 0; i < len(s); i++ {
		c := s[i]
		if !(c >= 'a' && c <= 'z' || c >= 'A' && c <= 'Z' || c >= '0' && c <= '9' || c == '-' || c == '.' || c == '+') {
			return false
		}
	}
	return s != "any" && s != "all"
}

// spreads[s][q mod len]: the field of a source's q-th dependency (0 Build-Depends, 1 -Arch, 2 -Indep).
var spreads = [][]int{nil, {1, 2, 0}, {2, 1, 0}, {1, 2}, {2, 1}}

var padKinds = []string{"unknown packages", "mixed: unknown, substvar, not admitted [arm64], admitted [linux-any], unknown | unknown"}

// padRel: the m-th extra relation of field k of a source. None of these names is built by any source, so the
// model never gets an edge from them; what varies is how many of them the architecture filter lets through.
func padRel(kind, k, m int) rel {
	name := fmt.Sprintf("pad%d%c", k, 'a'+m)
	if m >= 26 {
		name = fmt.Sprintf("pad%dx%d", k, m)
	}
	if kind == 1 {
		switch m % 5 {
		case 1:
			return rel{[]alt{{Name: name + ":Depends", Subst: true}}}
		case 2:
			return rel{[]alt{{Name: name, Archs: []string{"arm64"}}}}
		case 3:
			return rel{[]alt{{Name: name, Ver: ">= 2", Archs: []string{"linux-any"}}}}
		case 4:
			return rel{[]alt{{Name: name}, {Name: name + "-alt"}}}
		}
	}
	return rel{[]alt{{Name: name}}}
}

// norm fills the dimensions an older artefact does not have with their defaults.
func (in In) norm() In {
	n := in.N
	if n < 1 || n > maxN {
		return in
	}
	if in.Spread == nil {
		in.Spread = make([]int, n)
	}
	if in.PadKind == nil {
		in.PadKind = make([]int, n)
	}
	if in.Pos == nil {
		in.Pos = make([]int, n)
	}
	if in.Pad == nil {
		for i := 0; i < n; i++ {
			in.Pad = append(in.Pad, make([]int, 3))
		}
	}
	if in.Ver == nil {
		in.Ver = make([]int, n)
	}
	if in.ArchF == nil {
		in.ArchF = make([]int, n)
	}
	return in
}

// archFields: the Architecture field of a source's .dsc ("" = absent). The statement filters per RELATION by the build
// architecture; what architectures the provider's own binaries are for plays no role for the order.
var archFields = []string{"any", "all", "any all", "amd64", "i386", "linux-any", ""}

// srcVersions: the Version field of a source. Version constraints of build-dependencies are about the BINARY
// package and never remove an edge in the model, whatever the provider's source version is.
var srcVersions = []string{"1.0-1", "", "2:0.5", "1.203"}

// fieldRel is one relation of one field of one source, with the dependency it stands for (j<0: none).
type fieldRel struct {
	r      rel
	j, bin int // target source and binary number (1|2); j = -1 for unknown/substvar relations
}

// fields returns the relations of source i per build-dependency field, in rendering order.
func (in In) fields(i int) [3][]fieldRel {
	var f [3][]fieldRel
	q := 0
	for j := 0; j < in.N; j++ {
		if in.Dep[i][j] == 0 {
			continue
		}
		fld := in.Field[i][j]
		if sp := spreads[in.Spread[i]]; sp != nil {
			fld = (sp[q%len(sp)] + in.Field[i][j]) % 3
		}
		q++
		for _, r := range decorate(in.Deco[i][j], in.bin(j, in.Dep[i][j]), in.third(i, j), in.al(otherPkg)) {
			fr := fieldRel{r, -1, 0}
			for _, a := range r.Alts {
				if !a.Subst && a.Name == in.bin(j, in.Dep[i][j]) {
					fr.j, fr.bin = j, in.Dep[i][j]
				}
			}
			f[fld] = append(f[fld], fr)
		}
	}
	// the extra relations: real ones first / in the middle / last
	for k := 0; k < 3; k++ {
		p := in.Pad[i][k]
		if p == 0 {
			continue
		}
		before := 0
		switch in.Pos[i] {
		case 1:
			before = (p + 1) / 2
		case 2:
			before = p
		}
		var out []fieldRel
		for m := 0; m < before; m++ {
			out = append(out, fieldRel{padRel(in.PadKind[i], k, m), -1, 0})
		}
		out = append(out, f[k]...)
		for m := before; m < p; m++ {
			out = append(out, fieldRel{padRel(in.PadKind[i], k, m), -1, 0})
		}
		f[k] = out
	}
	if in.Unknown[i] == 1 {
		f[0] = append([]fieldRel{{rel{[]alt{{Name: in.al(unknownPkg)}}}, -1, 0}}, f[0]...)
	}
	if in.Unknown[i] == 2 {
		f[0] = append(f[0], fieldRel{rel{[]alt{{Name: in.al(unknownPkg)}}}, -1, 0})
	}
	return f
}

// dscText renders source i as an ordinary .dsc (unsigned).
func (in In) dscText(i int) string {
	var b strings.Builder
	s := in.src(i)
	b.WriteString("Format: 3.0 (quilt)\n")
	b.WriteString("Source: " + s + "\n")
	switch {
	case in.NB[i] == 0:
		// a source that builds no binary of its own in this set: no Binary field
	case in.NB[i] == 1:
		b.WriteString("Binary: " + in.bin(i, 1) + "\n")
	case in.NB[i] == 2 && in.FoldBin[i] == 1:
		b.WriteString("Binary: " + in.bin(i, 1) + ",\n " + in.bin(i, 2) + "\n")
	default:
		// longer lists: folded after every second name, the way dpkg-source wraps them
		b.WriteString("Binary: ")
		for k := 1; k <= in.NB[i]; k++ {
			b.WriteString(in.bin(i, k))
			switch {
			case k == in.NB[i]:
				b.WriteString("\n")
			case in.FoldBin[i] == 1 && k%2 == 0:
				b.WriteString(",\n ")
			default:
				b.WriteString(", ")
			}
		}
	}
	if a := archFields[in.ArchF[i]]; a != "" {
		b.WriteString("Architecture: " + a + "\n")
	}
	if v := srcVersions[in.Ver[i]]; v != "" {
		b.WriteString("Version: " + v + "\n")
	}
	b.WriteString("Maintainer: A B <a@b.example>\n")
	b.WriteString("Standards-Version: 4.6.2\n")
	for q, x := range in.Extra {
		if q%2 == 0 {
			b.WriteString(x + "\n")
		}
	}
	f := in.fields(i)
	for k, rels := range f {
		if len(rels) == 0 {
			continue
		}
		b.WriteString(fieldNames[k] + ":")
		if in.Fold[i] == 1 {
			if len(rels) == 1 {
				b.WriteString("\n " + rels[0].r.String() + "\n")
			} else {
				for q, fr := range rels {
					if q == 0 {
						b.WriteString(" " + fr.r.String())
					} else {
						b.WriteString(",\n " + fr.r.String())
					}
				}
				b.WriteString("\n")
			}
		} else {
			var x []string
			for _, fr := range rels {
				x = append(x, fr.r.String())
			}
			b.WriteString(" " + strings.Join(x, ", ") + "\n")
		}
	}
	b.WriteString("Package-List:\n")
	for k := 1; k <= in.NB[i]; k++ {
		b.WriteString(" " + in.bin(i, k) + " deb misc optional arch=any\n")
	}
	b.WriteString("Files:\n")
	b.WriteString(" d41d8cd98f00b204e9800998ecf8427e 0 " + s + "_1.0.orig.tar.gz\n")
	b.WriteString(" d41d8cd98f00b204e9800998ecf8427e 0 " + s + "_1.0-1.debian.tar.xz\n")
	for q, x := range in.Extra {
		if q%2 == 1 {
			b.WriteString(x + "\n")
		}
	}
	return b.String()
}

// edge: source From must be built before source To.
type edge struct {
	From, To   int
	Bin        int  // through which binary of From
	FoldedLast bool // the chosen name is the last thing of a folded field (a line end follows it directly)
	BinFolded  bool // From's Binary field is folded
}

// modelEdges computes the edge set from the MODEL for in.Arch.
func (in In) modelEdges() []edge {
	var es []edge
	for i := 0; i < in.N; i++ {
		es = append(es, in.edgesInto(i, in.Arch)...)
	}
	for k := range es {
		es[k].BinFolded = in.FoldBin[es[k].From] == 1
	}
	return es
}

// edgesInto: the model edges whose target is source i, for architecture arch (BinFolded is filled by the caller).
func (in In) edgesInto(i int, arch string) []edge {
	var es []edge
	f := in.fields(i)
	for _, rels := range f {
		for q, fr := range rels {
			c, ok := fr.r.chosen(arch)
			if !ok {
				continue
			}
			a := fr.r.Alts[c]
			// is the chosen name a binary of a source of the set (its own included: a self-edge)?
			for j := 0; j < in.N; j++ {
				for k := 1; k <= in.NB[j]; k++ {
					if a.Name == in.bin(j, k) {
						es = append(es, edge{From: j, To: i, Bin: k,
							FoldedLast: in.Fold[i] == 1 && q == len(rels)-1 && c == len(fr.r.Alts)-1 && a.Ver == "" && len(a.Archs) == 0 && a.Qual == "" && a.Profiles == ""})
					}
				}
			}
		}
	}
	return es
}

func cyclic(n int, es []edge) bool {
	indeg := make([]int, n)
	for _, e := range es {
		indeg[e.To]++
	}
	done := make([]bool, n)
	left := n
	for progress := true; progress && left > 0; {
		progress = false
		for v := 0; v < n; v++ {
			if !done[v] && indeg[v] == 0 {
				done[v] = true
				left--
				progress = true
				for _, e := range es {
					if e.From == v {
						indeg[e.To]--
					}
				}
			}
		}
	}
	return left > 0
}

// features: predicates of the input only — through which kind of construct the model's edges run.
func features(in In, es []edge) []string {
	m := map[string]bool{}
	for _, e := range es {
		if e.Bin >= 2 {
			m["edge-via-second-binary"] = true
			if e.BinFolded {
				m["binary-field-folded"] = true
			}
		}
		if e.FoldedLast {
			m["edge-via-folded-last-name"] = true
		}
		if e.From == e.To {
			m["self-dependency"] = true
		}
	}
	var f []string
	for k := range m {
		f = append(f, k)
	}
	sort.Strings(f)
	return f
}

// ---------------------------------------------------------------------------------------------------------
// execution and oracle

// rowInfo is everything that depends on one source's own row of the model only: its parsed .dsc and the
// model edges INTO it per architecture. rowCache memoises it per row (the row determines the rendered text).
type rowInfo struct {
	dsc   *control.DSC
	edges map[string][]edge // per build architecture, filled on demand
}

type parseCache map[string]*rowInfo

var textsParsed int64

// harnessProblem: something kept the case from being ordered at all. library = the LIBRARY failed on an ordinary
// rendered .dsc (ParseDsc error / panic / wrong Source) — that is an outcome (a violation), not a fault of the harness.
type harnessProblem struct {
	msg     string
	library bool
}

// parseViolation turns a library-side parse failure into a verdict.
func parseViolation(scen string, in In, hp *harnessProblem) verdict {
	return verdict{clause: "ordinary-dsc-is-parsed", feats: nil, class: "VIOLATION:dsc-not-parsed",
		build: func() *mc.Violation {
			return mc.V(scen, "ordinary-dsc-is-parsed", in, "ParseDsc reads every rendered .dsc (ordinary control data), so that the set can be ordered", hp.msg)
		}}
}

// rowKey identifies everything dscText(i) and the edges into i depend on.
func (in In) rowKey(i int) string {
	b := make([]byte, 0, 8+4*in.N)
	b = append(b, byte(i), byte(in.Unknown[i]), byte(in.Fold[i]), byte(in.FoldBin[i]),
		byte(in.ArchF[i]), byte(in.Ver[i]), byte(in.Spread[i]), byte(in.PadKind[i]), byte(in.Pos[i]), byte(in.Pad[i][0]), byte(in.Pad[i][1]), byte(in.Pad[i][2]))
	for j := 0; j < in.N; j++ {
		b = append(b, byte(in.NB[j]), byte(in.Dep[i][j]), byte(in.Field[i][j]), byte(in.Deco[i][j]))
	}
	if len(in.Alias) > 0 || len(in.Extra) > 0 {
		ks := make([]string, 0, len(in.Alias))
		for k := range in.Alias {
			ks = append(ks, k)
		}
		sort.Strings(ks)
		for _, k := range ks {
			b = append(b, 0)
			b = append(b, k...)
			b = append(b, '=')
			b = append(b, in.Alias[k]...)
		}
		for _, x := range in.Extra {
			b = append(b, 1)
			b = append(b, x...)
		}
	}
	return string(b)
}

func row(in In, i int, cache parseCache) (*rowInfo, *harnessProblem) {
	var k string
	if cache != nil {
		k = in.rowKey(i)
		if ri, ok := cache[k]; ok {
			return ri, nil
		}
	}
	d, hp := parse(in, i)
	if hp != nil {
		return nil, hp
	}
	ri := &rowInfo{dsc: d, edges: map[string][]edge{}}
	if cache != nil {
		cache[k] = ri
	}
	return ri, nil
}

func parse(in In, i int) (*control.DSC, *harnessProblem) {
	t := in.dscText(i)
	var d *control.DSC
	var err error
	p, msg := mc.Guard(func() { d, err = control.ParseDsc(bufio.NewReader(strings.NewReader(t)), in.src(i)+"_1.0-1.dsc") })
	if p {
		return nil, &harnessProblem{"ParseDsc panicked on a rendered .dsc: " + msg + "\n" + t, true}
	}
	if err != nil {
		return nil, &harnessProblem{"ParseDsc rejects a rendered .dsc: " + err.Error() + "\n" + t, true}
	}
	if d.Source != in.src(i) {
		return nil, &harnessProblem{fmt.Sprintf("ParseDsc: Source = %q, rendered %q", d.Source, in.src(i)), true}
	}
	atomic.AddInt64(&textsParsed, 1)
	return d, nil
}

type outcome struct {
	order []string
	err   string
	panic string
}

func (o outcome) String() string {
	switch {
	case o.panic != "":
		return "panic: " + o.panic
	case o.err != "":
		return "error: " + o.err
	}
	return "order " + strings.Join(o.order, " < ")
}

// otherOrders executes run under every explored alternative map-iteration order (see maporder_instr.go); on the plain
// build there is nothing to control and the clause rests on the two plain executions.
var (
	otherOrders    = func(run func() outcome) []outcome { return nil }
	mapOrderNote   = "plain build: map-iteration order is not under control; the same-outcome clause compares two executions"
	mapOrderExecs  int64
	mapOrderCapped int64
)

func runOrder(dscs []control.DSC, arch dependency.Arch) (o outcome) {
	p, msg := mc.Guard(func() {
		res, err := control.OrderDSCForBuild(dscs, arch)
		if err != nil {
			o.err = err.Error()
			if res != nil {
				o.err += fmt.Sprintf(" (together with %d sources)", len(res))
			}
			return
		}
		o.order = []string{}
		for _, d := range res {
			o.order = append(o.order, d.Source)
		}
	})
	if p {
		o.panic = msg
	}
	return
}

type verdict struct {
	clause  string // "" = the statement holds on this input
	feats   []string
	build   func() *mc.Violation // builds the artefact (costly: renders and marshals), only when clause != ""
	class   string
	edges   int
	cyclic  bool
	problem *harnessProblem
}

func (v verdict) violation() *mc.Violation {
	if v.clause == "" {
		return nil
	}
	return v.build()
}

func describe(in In, es []edge) string {
	var x []string
	for _, e := range es {
		x = append(x, fmt.Sprintf("%s<%s(via %s)", in.src(e.From), in.src(e.To), in.bin(e.From, e.Bin)))
	}
	return "[" + strings.Join(x, " ") + "]"
}

var archCache sync.Map // name -> dependency.Arch

func parsedArch(name string) (dependency.Arch, error) {
	if v, ok := archCache.Load(name); ok {
		return v.(dependency.Arch), nil
	}
	p, err := dependency.ParseArch(name)
	if err != nil {
		return dependency.Arch{}, err
	}
	archCache.Store(name, *p)
	return *p, nil
}

// check is THE oracle: a plain function of the input (cache only memoises per-row work: ParseDsc of the
// rendered text and the model edges of that row).
func check(scen string, in In, cache parseCache) verdict {
	if len(in.Seq) > 0 {
		return checkSeq(scen, in, cache)
	}
	in = in.norm()
	if !in.valid() {
		return verdict{class: "invalid-input"}
	}
	rows, hp := prepare(in, cache)
	if hp != nil {
		if hp.library {
			return parseViolation(scen, in, hp)
		}
		return verdict{problem: hp}
	}
	return evaluate(scen, in, rows, true)
}

// prepare does the per-row work (render + ParseDsc + model edges into the row); it does not depend on
// in.Arch or in.Perm.
func prepare(in In, cache parseCache) ([]*rowInfo, *harnessProblem) {
	rows := make([]*rowInfo, in.N)
	for i := 0; i < in.N; i++ {
		ri, hp := row(in, i, cache)
		if hp != nil {
			return nil, hp
		}
		rows[i] = ri
	}
	return rows, nil
}

// evaluate runs OrderDSCForBuild (a second time if twice) on the parsed sources in the order in.Perm for in.Arch and judges it.
func evaluate(scen string, in In, rows []*rowInfo, twice bool) verdict {
	arch, aerr := parsedArch(in.Arch)
	if aerr != nil {
		return verdict{problem: &harnessProblem{msg: "ParseArch(" + in.Arch + "): " + aerr.Error()}}
	}
	var es []edge
	for i := 0; i < in.N; i++ {
		e, ok := rows[i].edges[in.Arch]
		if !ok {
			e = in.edgesInto(i, in.Arch)
			rows[i].edges[in.Arch] = e
		}
		es = append(es, e...)
	}
	for k := range es {
		es[k].BinFolded = in.FoldBin[es[k].From] == 1
	}
	input := make([]control.DSC, in.N)
	for p, s := range in.Perm {
		input[p] = *rows[s].dsc
	}
	cyc := cyclic(in.N, es)
	res := verdict{edges: len(es), cyclic: cyc}
	o1 := runOrder(input, arch)
	o2 := o1
	if twice {
		o2 = runOrder(input, arch)
		if reflect.DeepEqual(o1, o2) {
			// every explored map-iteration order of the same call (instrumented build) must give that outcome too
			for _, o := range otherOrders(func() outcome { return runOrder(input, arch) }) {
				if !reflect.DeepEqual(o1, o) {
					o2 = o
					break
				}
			}
		}
	}
	inNames := func() string {
		var x []string
		for _, s := range in.Perm {
			x = append(x, in.src(s))
		}
		return strings.Join(x, ",")
	}
	fail := func(class, clause string, expected func() string, o outcome) {
		res.class = class
		res.clause = clause
		res.feats = features(in, es)
		res.build = func() *mc.Violation {
			v := mc.V(scen, clause, in, expected(), o.String(), features(in, es)...)
			var t strings.Builder
			for p, s := range in.Perm {
				fmt.Fprintf(&t, "# input[%d] %s, architecture %s\n%s\n", p, in.src(s), in.Arch, in.dscText(s))
			}
			v.Text = t.String()
			return v
		}
	}
	switch {
	case o1.panic != "":
		fail("VIOLATION:panic", "order-or-error", func() string { return "an order or an error" }, o1)
	case cyc && o1.err == "":
		fail("VIOLATION:cycle-not-reported", "cycle-yields-error",
			func() string { return "an error: the build-dependencies " + describe(in, es) + " form a cycle" }, o1)
	case !cyc && o1.err != "":
		fail("VIOLATION:error-on-acyclic", "acyclic-yields-order",
			func() string { return "an order of " + inNames() + " respecting " + describe(in, es) + " (no cycle)" }, o1)
	case !cyc:
		// permutation of the input (by source name)
		pos := make([]int, in.N)
		for i := range pos {
			pos[i] = -1
		}
		perm := len(o1.order) == in.N
		for p, s := range o1.order {
			found := false
			for i := 0; i < in.N; i++ {
				if s == in.src(i) {
					found = true
					if pos[i] != -1 {
						perm = false
					}
					pos[i] = p
				}
			}
			if !found {
				perm = false
			}
		}
		for i := range pos {
			if pos[i] == -1 {
				perm = false
			}
		}
		if !perm {
			fail("VIOLATION:not-a-permutation", "result-is-permutation-of-input", func() string { return "a permutation of " + inNames() }, o1)
			break
		}
		for _, e := range es {
			if pos[e.From] > pos[e.To] {
				e := e
				fail("VIOLATION:dependency-built-later", "dependency-built-first", func() string {
					return fmt.Sprintf("%s before %s (it builds %s, which %s build-depends on for %s); all constraints: %s",
						in.src(e.From), in.src(e.To), in.bin(e.From, e.Bin), in.src(e.To), in.Arch, describe(in, es))
				}, o1)
				break
			}
		}
	}
	if res.clause == "" && !reflect.DeepEqual(o1, o2) {
		fail("VIOLATION:differs-between-runs", "same-outcome-every-run", func() string { return o1.String() }, o2)
	}
	if res.clause == "" {
		if cyc {
			res.class = "cyclic:error"
		} else {
			res.class = "acyclic:ordered"
		}
	}
	return res
}

// ---------------------------------------------------------------------------------------------------------
// enumeration

func permutations(n int) [][]int {
	var out [][]int
	var rec func(cur []int, used []bool)
	rec = func(cur []int, used []bool) {
		if len(cur) == n {
			out = append(out, append([]int(nil), cur...))
			return
		}
		for i := 0; i < n; i++ {
			if !used[i] {
				used[i] = true
				rec(append(cur, i), used)
				used[i] = false
			}
		}
	}
	rec(nil, make([]bool, n))
	return out
}

// graph is the compact form of one base graph: n bytes NB, then the n*(n-1) Dep values of the ordered pairs
// (i,j), i != j, row by row.
type graph string

func (g graph) expand(n int) In {
	in := blank(n)
	for i := 0; i < n; i++ {
		in.NB[i] = int(g[i])
	}
	full := len(g) == n+n*n // with the diagonal: the whole n×n matrix, row by row
	k := n
	for i := 0; i < n; i++ {
		for j := 0; j < n; j++ {
			if i != j || full {
				in.Dep[i][j] = int(g[k])
				k++
			}
		}
	}
	return in
}

// selfDeps: number of sources that build-depend on a binary of their own (graphs with the diagonal only).
func (g graph) selfDeps(n int) int {
	if len(g) != n+n*n {
		return 0
	}
	d := 0
	for i := 0; i < n; i++ {
		if g[n+i*n+i] != 0 {
			d++
		}
	}
	return d
}

func (g graph) deps(n int) int {
	d := 0
	for k := n; k < len(g); k++ {
		if g[k] != 0 {
			d++
		}
	}
	return d
}

// baseGraphs enumerates every (NB, Dep) over n sources.
func baseGraphs(n int) []graph { return enumGraphs(n, false) }

// enumGraphs: diag = the diagonal too (Dep[i][i]: a source build-depends on its own first / second binary).
func enumGraphs(n int, diag bool) []graph {
	var out []graph
	for m := 0; m < 1<<n; m++ {
		nb := make([]byte, n)
		for i := range nb {
			nb[i] = byte(1 + (m>>i)&1)
		}
		// target source of each ordered pair, in row order
		var tgt []int
		for i := 0; i < n; i++ {
			for j := 0; j < n; j++ {
				if i != j || diag {
					tgt = append(tgt, j)
				}
			}
		}
		cur := make([]byte, len(tgt))
		for {
			out = append(out, graph(string(nb)+string(cur)))
			k := 0
			for k < len(tgt) {
				cur[k]++
				if cur[k] <= nb[tgt[k]] {
					break
				}
				cur[k] = 0
				k++
			}
			if k == len(tgt) {
				break
			}
		}
	}
	return out
}

func blank(n int) In {
	in := In{N: n, NB: make([]int, n), Unknown: make([]int, n), Fold: make([]int, n), FoldBin: make([]int, n), Arch: "amd64",
		Spread: make([]int, n), PadKind: make([]int, n), Pos: make([]int, n), Ver: make([]int, n), ArchF: make([]int, n)}
	for i := 0; i < n; i++ {
		in.Pad = append(in.Pad, make([]int, 3))
		in.Dep = append(in.Dep, make([]int, n))
		in.Field = append(in.Field, make([]int, n))
		in.Deco = append(in.Deco, make([]int, n))
		in.Perm = append(in.Perm, i)
		in.NB[i] = 1
	}
	return in
}

func clone(b In) In {
	in := b
	in.NB = append([]int(nil), b.NB...)
	in.Unknown = append([]int(nil), b.Unknown...)
	in.Fold = append([]int(nil), b.Fold...)
	in.FoldBin = append([]int(nil), b.FoldBin...)
	in.Perm = append([]int(nil), b.Perm...)
	in.Spread = append([]int(nil), b.Spread...)
	in.PadKind = append([]int(nil), b.PadKind...)
	in.Pos = append([]int(nil), b.Pos...)
	in.Ver = append([]int(nil), b.Ver...)
	in.ArchF = append([]int(nil), b.ArchF...)
	in.Dep, in.Field, in.Deco, in.Pad = nil, nil, nil, nil
	for i := 0; i < b.N; i++ {
		in.Pad = append(in.Pad, append([]int(nil), b.Pad[i]...))
		in.Dep = append(in.Dep, append([]int(nil), b.Dep[i]...))
		in.Field = append(in.Field, append([]int(nil), b.Field[i]...))
		in.Deco = append(in.Deco, append([]int(nil), b.Deco[i]...))
	}
	return in
}

var archs = []string{"amd64", "i386", "kfreebsd-amd64", "musl-linux-amd64"} // the last two: a non-linux OS, a non-gnu ABI

var edgeClass = func() []string {
	var x []string
	for i := 0; i < 64; i++ {
		x = append(x, fmt.Sprintf("model-edges=%d", i))
	}
	return x
}()

// witnesses collects, across the shards of one scenario, the first 3 violating executions (in enumeration order)
// per clause+features, so that the artefacts written are the same on every run whatever the worker scheduling.
type witnesses struct {
	mu   sync.Mutex
	best map[string][]witness
	done int
}

type witness struct {
	seq uint64
	v   *mc.Violation
}

func (w *witnesses) offer(key string, seq uint64, v *mc.Violation) {
	w.mu.Lock()
	defer w.mu.Unlock()
	if w.best == nil {
		w.best = map[string][]witness{}
	}
	b := append(w.best[key], witness{seq, v})
	sort.Slice(b, func(i, j int) bool { return b[i].seq < b[j].seq })
	if len(b) > 3 {
		b = b[:3]
	}
	w.best[key] = b
}

// shardDone: the shard that finishes last (or any shard finishing after the deadline) hands the collected
// witnesses to its Stats.
func (w *witnesses) shardDone(total int, expired bool, st *mc.Stats) {
	w.mu.Lock()
	defer w.mu.Unlock()
	w.done++
	if w.done < total && !expired {
		return
	}
	keys := make([]string, 0, len(w.best))
	for k := range w.best {
		keys = append(keys, k)
	}
	sort.Strings(keys)
	for _, k := range keys {
		for _, x := range w.best[k] {
			st.Violate(x.v)
		}
	}
	w.best = nil
}

// explore runs one scenario: all base graphs over n sources × architecture × the given input orders ×
// all executions with at most k deviations (field, decoration, unknown dependency, folding).
type scen struct {
	name      string
	n, k      int
	perms     [][]int
	archSet   []string
	maxDeps   int               // -1: all graphs; else only graphs with at most that many dependencies
	decoN     int               // width of the decoration Deviate point (prefix of decos)
	layout    bool              // per-source field-layout Deviate points (spread over fields, 0..7 extra relations per field, their kind, position)
	oneBinary bool              // only graphs in which every source has one binary
	onlyLay   bool              // ONLY field and layout points deviate (decoration, unknown, folding stay default)
	archF     bool              // per-source Deviate point: the source's own Architecture field (7 values)
	namings   []naming          // if set: every base graph is combined with every naming variant (full product)
	ver       bool              // per-source Deviate point: the source's own Version (4 values)
	verAll    bool              // every base graph is combined with EVERY assignment of source versions (full product)
	decoSet   []int             // if set: the decoration Deviate point ranges over these indices (decoSet[0] must be 0)
	diag      bool              // the diagonal is enumerated too: sources may build-depend on their own binaries
	alias     map[string]string // alphabet audit: names used instead of the default ones
	extra     []string          // alphabet audit: extra fields written into every .dsc
}

func explore(r *mc.Run, sc scen) {
	name, n, k, perms, archSet, decoN := sc.name, sc.n, sc.k, sc.perms, sc.archSet, sc.decoN
	var graphs []graph
	for _, g := range enumGraphs(n, sc.diag) {
		if sc.maxDeps >= 0 && g.deps(n) > sc.maxDeps {
			continue
		}
		if sc.oneBinary && strings.Trim(string(g[:n]), "\x01") != "" {
			continue
		}
		graphs = append(graphs, g)
	}
	// source versions: one assignment (all default) or the full product
	vers := [][]int{make([]int, n)}
	if sc.verAll {
		vers = nil
		cur := make([]int, n)
		for {
			vers = append(vers, append([]int(nil), cur...))
			k := 0
			for k < n {
				cur[k]++
				if cur[k] < len(srcVersions) {
					break
				}
				cur[k] = 0
				k++
			}
			if k == n {
				break
			}
		}
	}
	namings := sc.namings
	if namings == nil {
		namings = []naming{{name: "default", alias: sc.alias, noBin: -1}}
	}
	nBases := len(graphs) * len(vers) * len(namings)
	const chunk = 16
	nsh := (nBases + chunk - 1) / chunk
	points := fmt.Sprintf("per dependency: field (3), decoration (%d); per source: unknown dependency (none/first/last), build-dep fields folded, Binary folded", decoN)
	if sc.onlyLay {
		points = "per dependency: field (3)"
	}
	if sc.decoSet != nil {
		points = fmt.Sprintf("per dependency: field (3), decoration (%d: plain + the version-constraint decorations); per source: unknown dependency, folding", len(sc.decoSet))
	}
	if sc.ver {
		points += "; per source: its own Version (4)"
	}
	if sc.archF {
		points += "; per source: its own Architecture field (any, all, any all, amd64, i386, linux-any, absent)"
	}
	if sc.namings != nil {
		var nn []string
		for _, x := range sc.namings {
			nn = append(nn, x.name)
		}
		points += "; every graph × every naming variant: " + strings.Join(nn, " | ")
	}
	if sc.layout {
		points += "; per source: spread of its dependencies over the three fields (5), extra relations in Build-Depends (0..7), in -Arch (0..2), in -Indep (0..2), kind of extra relations (2), position of the real relations (first/middle/last)"
	}
	bounds := map[string]interface{}{"sources": n, "binaries_per_source": "1|2", "base_graphs": len(graphs), "architectures": archSet,
		"input_orders": "all permutations", "deviation_bound_k": k, "graphs_restricted_to_at_most_dependencies": sc.maxDeps,
		"one_binary_per_source_only": sc.oneBinary, "source_versions": srcVersions, "source_version_is_deviate_point": sc.ver, "all_source_version_assignments": sc.verAll, "self_dependencies_enumerated": sc.diag, "deviation_points": points, "decorations": decoNames(decoN)}
	wit := &witnesses{}
	r.Scenario(name, bounds, nsh, func(sh int, st *mc.Stats) bool {
		defer func() { wit.shardDone(nsh, r.Expired(), st) }()
		cache := parseCache{}
		kept := map[string]int{} // artefacts are built for the first 3 executions per clause+features of a shard; all are counted in the classes
		lo, hi := sh*chunk, sh*chunk+chunk
		if hi > nBases {
			hi = nBases
		}
		ok := true
		for g := lo; g < hi && ok; g++ {
			nm := namings[g%len(namings)]
			base := graphs[g/len(namings)/len(vers)].expand(n)
			base.Ver = append([]int(nil), vers[g/len(namings)%len(vers)]...)
			base.Alias, base.Extra = nm.alias, sc.extra
			if nm.noBin >= 0 {
				// the source builds no binary here: skip graphs in which somebody depends on one of its binaries
				skip := false
				for i := 0; i < n; i++ {
					if base.Dep[i][nm.noBin] != 0 {
						skip = true
					}
				}
				if skip {
					continue
				}
				base.NB[nm.noBin] = 0
			}
			if len(cache) > 8192 {
				cache = parseCache{} // bound the memory held by memoised parses
			}
			cnt := 0
			_, div := mc.Explore(k, st, func(x *mc.X) {
				if !ok {
					return
				}
				cnt++
				if cnt%256 == 0 && r.Expired() {
					ok = false
					return
				}
				in := clone(base)
				if k > 0 {
					for i := 0; i < n; i++ {
						has := false
						for j := 0; j < n; j++ {
							if in.Dep[i][j] != 0 {
								has = true
								in.Field[i][j] = x.Deviate(3, "field")
								if sc.decoSet != nil {
									in.Deco[i][j] = sc.decoSet[x.Deviate(len(sc.decoSet), "decoration")]
								} else if !sc.onlyLay {
									in.Deco[i][j] = x.Deviate(decoN, "decoration")
								}
							}
						}
						if sc.ver {
							in.Ver[i] = x.Deviate(len(srcVersions), "source-version")
						}
						if sc.archF {
							in.ArchF[i] = x.Deviate(len(archFields), "source-architecture-field")
						}
						if !sc.onlyLay {
							in.Unknown[i] = x.Deviate(3, "unknown-dependency")
							if has || in.Unknown[i] != 0 {
								in.Fold[i] = x.Deviate(2, "fold-build-depends")
							}
							if in.NB[i] == 2 {
								in.FoldBin[i] = x.Deviate(2, "fold-binary")
							}
						}
						if sc.layout {
							if has {
								in.Spread[i] = x.Deviate(len(spreads), "spread-over-fields")
							}
							in.Pad[i][0] = x.Deviate(8, "extra-relations-build-depends")
							in.Pad[i][1] = x.Deviate(3, "extra-relations-build-depends-arch")
							in.Pad[i][2] = x.Deviate(3, "extra-relations-build-depends-indep")
							if in.Pad[i][0]+in.Pad[i][1]+in.Pad[i][2] > 0 {
								in.PadKind[i] = x.Deviate(len(padKinds), "kind-of-extra-relations")
								if has {
									in.Pos[i] = x.Deviate(3, "position-of-real-relations")
								}
							}
						}
					}
				}
				rows, hp := prepare(in, cache)
				if hp != nil && hp.library {
					res := parseViolation(name, clone(in), hp)
					st.Evals++
					st.Traces++
					st.Class(res.class)
					if kept[res.clause] < 3 {
						kept[res.clause]++
						wit.offer(res.clause, uint64(g)<<36|uint64(cnt)<<8, res.violation())
					}
					return
				}
				if hp != nil {
					r.HarnessError("%s", hp.msg)
					ok = false
					return
				}
				// architecture and input order are FULL choice points: plain loops (every combination is executed)
				for ai, a := range archSet {
					for pi, pm := range perms {
						in.Arch, in.Perm = a, pm
						res := evaluate(name, in, rows, pi == 0 || pi == len(perms)-1) // second run (determinism clause) for the first and the last input order
						st.Evals++
						st.Traces++
						st.Transitions++
						if res.edges > 0 {
							st.Nontrivial++
						}
						st.Class(res.class)
						st.Class(edgeClass[res.edges])
						if res.clause != "" {
							key := res.clause + "|" + strings.Join(res.feats, ",")
							if kept[key] < 3 {
								kept[key]++
								// built now: in is reused by the next iteration
								wit.offer(key, uint64(g)<<36|uint64(cnt)<<8|uint64(ai)<<5|uint64(pi), res.violation())
							}
						}
						if st.WantSample() && (g*7+cnt)%4099 == 0 && a == archSet[len(archSet)-1] && pm[0] == n-1 {
							c := clone(in)
							st.Sample(map[string]interface{}{"input": c, "model_edges": describe(c, c.modelEdges()), "outcome": res.class, "deviations": x.Deviations()})
						}
					}
				}
			})
			if div != "" {
				r.HarnessError("explorer divergence: %s", div)
				return false
			}
		}
		return ok
	})
}

func Run(r *mc.Run) {
	r.Rule = "every build-dependency graph over n sources with 1|2 binaries (per ordered pair: none / first binary / second binary; in graphs-n1, selfdeps-* and call-sequences also the diagonal: a source build-depending on its own first / second binary) × architecture × input order × ≤k deviations (field, decoration, unknown dependency, folding); each execution is a distinct input by construction (distinct choice vectors give distinct models); non-trivial = the model edge set is not empty"
	r.Assume = []string{
		"edge set from the model: per relation the first non-substvar alternative whose architecture list admits the build architecture (concrete architectures amd64/i386, so admission is equality); an edge Sj→Si when that name is a binary of another source Sj; version constraints do not remove an edge",
		"a source that build-depends on one of its own binaries (the diagonal of the graph) is INSIDE the alphabet: it cannot come after itself, so a self-edge is a dependency cycle and the call must fail (the pinned tree does: 'Cycle detected'); decorations apply as elsewhere (a self-dependency behind an alternative that is taken instead, or restricted away for the architecture, is no edge)",
		"duplicate source names and a binary built by two sources are outside the alphabet",
		"ParseDsc results are memoised per rendered .dsc text inside a shard (same text, same parse — determinism of parsing is C18's business); OrderDSCForBuild is executed for every case, and a second time (same-outcome clause) for every model × architecture on the first and the last input order; Replay always runs it twice",
		"folded build-dependency fields and a folded Binary field are counted as 'ordinary' .dsc (RFC822 continuation lines, as dpkg-source writes long fields)",
	}
	selfCheck(r)
	debug.SetGCPercent(300)         // the live heap is tiny; OrderDSCForBuild allocates a lot per call
	both, three := archs[:2], archs // the third build architecture (non-linux) only where the whole decoration alphabet is explored
	nFull := len(decos)
	p1, p2, p3 := permutations(1), permutations(2), permutations(3)
	explore(r, scen{name: "graphs-n1-k2", n: 1, k: 2, perms: p1, archSet: three, maxDeps: -1, decoN: nFull, layout: true, diag: true, ver: true, archF: true})
	explore(r, scen{name: "graphs-n2-k2", n: 2, k: 2, perms: p2, archSet: both, maxDeps: -1, decoN: nCore, layout: true, ver: true, archF: true})
	// version constraints against every provider source version: all two-source graphs (diagonal included) × all 16
	// version assignments, one deviation among field / the 35 version decorations / unknown / folding
	vset := []int{0}
	for d := firstVersionDeco; d < nStatic; d++ {
		vset = append(vset, d)
	}
	explore(r, scen{name: "versions-n2-k1", n: 2, k: 1, perms: p2, archSet: both[:1], maxDeps: -1, decoN: nBasic, diag: true, verAll: true, decoSet: vset})
	explore(r, scen{name: "versions-n3-k1-upto2deps", n: 3, k: 1, perms: p3, archSet: both[:1], maxDeps: 2, decoN: nBasic, oneBinary: true, ver: true, decoSet: vset})
	// naming: source names that coincide with binary names of other sources / of their own, prefixes
	explore(r, scen{name: "naming-n2-k1", n: 2, k: 1, perms: p2, archSet: both, maxDeps: -1, decoN: nBasic, namings: namingVariants(2), archF: true})
	explore(r, scen{name: "naming-n3-k0", n: 3, k: 0, perms: p3, archSet: both[:1], maxDeps: -1, decoN: nBasic, namings: namingVariants(3)})
	// self-dependencies: the whole n×n matrix
	explore(r, scen{name: "selfdeps-n2-k1-alldecorations", n: 2, k: 1, perms: p2, archSet: three, maxDeps: -1, decoN: nFull, diag: true})
	explore(r, scen{name: "selfdeps-n2-k2", n: 2, k: 2, perms: p2, archSet: both, maxDeps: -1, decoN: nBasic, diag: true})
	explore(r, scen{name: "selfdeps-n3-k0", n: 3, k: 0, perms: p3, archSet: both, maxDeps: -1, decoN: nBasic, diag: true})
	explore(r, scen{name: "selfdeps-n3-k1-upto2deps", n: 3, k: 1, perms: p3, archSet: both, maxDeps: 2, decoN: nCore, diag: true})
	if r.Quick() {
		explore(r, scen{name: "graphs-n2-k1-alldecorations", n: 2, k: 1, perms: p2, archSet: three, maxDeps: -1, decoN: nFull})
		explore(r, scen{name: "graphs-n3-k1-upto4deps", n: 3, k: 1, perms: p3, archSet: both, maxDeps: 4, decoN: nCore})                                                // (all 42 875 n=3 graphs run at k=0 in selfdeps-n3-k0; thorough: k=2 on all)
		explore(r, scen{name: "graphs-n3-k1-upto2deps-alldecorations", n: 3, k: 1, perms: p3, archSet: three, maxDeps: 2, decoN: nFull, layout: true, oneBinary: true}) // (the third architecture runs with all decorations in the n=1 / n=2 scenarios)
		explore(r, scen{name: "graphs-n3-k2-upto2deps", n: 3, k: 2, perms: p3, archSet: both, maxDeps: 2, decoN: nBasic})
		// field load: how many relations each field holds and which fields are in use at once
		explore(r, scen{name: "fieldload-n3-k2", n: 3, k: 2, perms: p3, archSet: both, maxDeps: -1, decoN: nBasic, layout: true, oneBinary: true, onlyLay: true})
	} else {
		explore(r, scen{name: "graphs-n2-k2-alldecorations", n: 2, k: 2, perms: p2, archSet: three, maxDeps: -1, decoN: nFull})
		explore(r, scen{name: "graphs-n3-k1-alldecorations", n: 3, k: 1, perms: p3, archSet: three, maxDeps: -1, decoN: nFull, layout: true})
		explore(r, scen{name: "graphs-n3-k2-upto2deps", n: 3, k: 2, perms: p3, archSet: both, maxDeps: 2, decoN: nCore})
		explore(r, scen{name: "graphs-n3-k2", n: 3, k: 2, perms: p3, archSet: both, maxDeps: -1, decoN: nBasic})
		explore(r, scen{name: "fieldload-n3-k3", n: 3, k: 3, perms: p3, archSet: both, maxDeps: -1, decoN: nBasic, layout: true, oneBinary: true, onlyLay: true})
		explore(r, scen{name: "fieldload-n2-k3", n: 2, k: 3, perms: p2, archSet: both, maxDeps: -1, decoN: nBasic, layout: true, onlyLay: true})
		// n = 4: every graph, every input order, default rendering (plain names: the architecture is irrelevant)
		explore(r, scen{name: "graphs-n4-k0", n: 4, k: 0, perms: permutations(4), archSet: []string{"amd64"}, maxDeps: -1, decoN: nBasic})
	}
	callSequences(r)
	auditScenarios(r)
	r.Extra["distinct_dsc_texts_parsed_with_ParseDsc"] = atomic.LoadInt64(&textsParsed)
	r.Extra["map_orders"] = map[string]interface{}{"how": mapOrderNote, "executions_under_alternative_orders": atomic.LoadInt64(&mapOrderExecs), "calls_that_hit_the_cap_of_2000": atomic.LoadInt64(&mapOrderCapped)}
}

// selfCheck validates the MODEL: worked examples, and (if libdpkg-perl is installed) Dpkg::Deps' architecture
// reduction on every decoration × architecture. Never decides the property.
func selfCheck(r *mc.Run) {
	// worked examples
	type ex struct {
		d    string // decoration name
		arch string
		want string // chosen package ("" = none)
	}
	byName := map[string]int{}
	for k, d := range decos {
		byName[d.name] = k
	}
	for _, e := range []ex{{"b", "amd64", "b"}, {"b (>= 1)", "i386", "b"}, {"b | other", "amd64", "b"}, {"other [i386] | b", "amd64", "b"},
		{"other [i386] | b", "i386", "other"}, {"b [amd64]", "amd64", "b"}, {"b [amd64]", "i386", ""}, {"b [!amd64]", "amd64", ""},
		{"b [!amd64]", "i386", "b"}, {"${misc:Depends}, b", "amd64", "b"},
		{"b [!amd64 !i386]", "amd64", ""}, {"b [!amd64 !i386]", "i386", ""}, {"b [!arm64 !amd64]", "amd64", ""}, {"b [!arm64 !amd64]", "i386", "b"},
		{"other [!amd64 !i386] | b", "amd64", "b"}, {"other [!arm64 !s390x] | b", "amd64", "other"}, {"b [arm64 amd64]", "amd64", "b"},
		{"b [arm64 amd64]", "i386", ""}, {"other [linux-any] | b", "i386", "other"}, {"b [!linux-any !kfreebsd-any]", "amd64", ""},
		{"other [any-i386 any-arm64] | b", "amd64", "b"}, {"other [any-i386 any-arm64] | b", "i386", "other"},
		{"b <!nocheck>", "amd64", "b"}, {"b:native", "i386", "b"}, {"${x:Depends} | b", "amd64", "b"},
		{"T [!amd64 !i386] | b", "amd64", "b"}, {"b [!i386 !arm64] | T", "i386", "T"}, {"b [!i386 !arm64] | T", "amd64", "b"},
		{"b [kfreebsd-amd64 amd64]", "amd64", "b"}, {"b [kfreebsd-amd64 amd64]", "i386", ""}, {"b [!kfreebsd-amd64]", "amd64", "b"},
		{"b [any]", "i386", "b"}, {"other [arm64 s390x] | b [!any-i386 !any-arm64]", "amd64", "b"},
		{"other [arm64 s390x] | b [!any-i386 !any-arm64]", "i386", ""}} {
		d, ok := byName[e.d]
		if !ok {
			r.HarnessError("model self-check: decoration %q is not in the alphabet", e.d)
			continue
		}
		got := ""
		for _, rl := range decorate(d, "b", "T", otherPkg) {
			if c, ok := rl.chosen(e.arch); ok {
				got = strings.Replace(rl.Alts[c].Name, otherPkg, "other", 1)
			}
		}
		if got != e.want {
			r.HarnessError("model self-check: decoration %q on %s: chosen %q, expected %q", e.d, e.arch, got, e.want)
		}
	}
	in := blank(3)
	in.Dep[0][1], in.Dep[1][2], in.Dep[2][0] = 1, 1, 1
	if !cyclic(3, in.modelEdges()) {
		r.HarnessError("model self-check: 3-cycle not detected")
	}
	in.Dep[2][0] = 0
	if cyclic(3, in.modelEdges()) {
		r.HarnessError("model self-check: chain reported cyclic")
	}
	// Dpkg::Deps
	cross := map[string]interface{}{}
	r.Extra["tool_crosschecks"] = cross
	if _, err := exec.LookPath("perl"); err != nil {
		cross["Dpkg::Deps"] = "skipped (perl not installed)"
		return
	}
	script := `use Dpkg::Deps; while(<STDIN>){chomp; my($a,$s)=split /\t/; my $d=deps_parse($s, reduce_arch=>1, host_arch=>$a, build_dep=>1, reduce_profiles=>1, build_profiles=>[]);
 if(!defined $d){print "PARSEFAIL\n"; next}
 my @o; for my $x ($d->get_deps()){ if($x->isa('Dpkg::Deps::OR')){ my @y=$x->get_deps(); push @o,$y[0]->{package} } else { push @o,$x->{package} } }
 print join(",",@o),"\n" }`
	var input strings.Builder
	var wants []string
	for d := range decos[:nStatic] { // (audit words are not in dpkg's architecture table)
		for _, a := range archs {
			var txt, want []string
			for _, rl := range decorate(d, "bin-b1", "bin-c1", otherPkg) {
				// Dpkg::Deps needs substvars expanded: substvar alternatives are dropped on both sides
				var keep rel
				for _, al := range rl.Alts {
					if !al.Subst {
						keep.Alts = append(keep.Alts, al)
					}
				}
				if len(keep.Alts) == 0 {
					continue
				}
				txt = append(txt, keep.String())
				if c, ok := keep.chosen(a); ok {
					want = append(want, keep.Alts[c].Name)
				}
			}
			fmt.Fprintf(&input, "%s\t%s\n", a, strings.Join(txt, ", "))
			wants = append(wants, strings.Join(want, ","))
		}
	}
	cmd := exec.Command("perl", "-e", script)
	cmd.Stdin = strings.NewReader(input.String())
	out, err := cmd.Output()
	if err != nil {
		cross["Dpkg::Deps"] = "skipped: " + err.Error()
		return
	}
	lines := strings.Split(strings.TrimRight(string(out), "\n"), "\n")
	if len(lines) != len(wants) {
		cross["Dpkg::Deps"] = fmt.Sprintf("skipped: %d answers for %d questions", len(lines), len(wants))
		return
	}
	bad := 0
	for i, w := range wants {
		if lines[i] != w {
			bad++
			r.HarnessError("model self-check: Dpkg::Deps disagrees on decoration %q for %s: dpkg %q, model %q", decos[i/len(archs)].name, archs[i%len(archs)], lines[i], w)
		}
	}
	cross["Dpkg::Deps_decoration_x_arch_cases"] = len(wants)
	cross["Dpkg::Deps_disagreements_with_model"] = bad
}

func Replay(scenario string, raw json.RawMessage) []*mc.Violation {
	var in In
	if err := mc.UnmarshalInput(raw, &in); err != nil {
		return nil
	}
	if v := check(scenario, in, nil).violation(); v != nil {
		return []*mc.Violation{v}
	}
	return nil
}
