// Package c05: rendering a parsed dependency and re-parsing it loses nothing (fixpoint in one step),
// and an architecture name survives parse/render/parse as the same triple. No reference parser is involved.
package c05

import (
	"encoding/json"
	"fmt"
	"strings"

	"pault.ag/go/debian/dependency"

	"verifharness/gen"
	"verifharness/mc"
	"verifharness/props/c06"
	"verifharness/props/reg"
	"verifharness/sched"
)

func init() { reg.Register(&reg.Prop{ID: "C05", Run: Run, Replay: Replay}) }

type In struct{ Text string }

func features(s string) []string {
	var f []string
	if strings.Contains(s, "${") {
		f = append(f, "substvar")
	}
	for i := 0; i < len(s); i++ {
		if s[i] >= 0x80 {
			f = append(f, "non-ascii")
			break
		}
	}
	if strings.Contains(s, "<>") {
		f = append(f, "empty-profile-group")
	}
	return f
}

// checkFix is the fixpoint oracle for one input string. accepted reports whether the parser accepted it.
func checkFix(scen string, in In) (vs []*mc.Violation, accepted bool) {
	var d *dependency.Dependency
	var err error
	if p, msg := mc.Guard(func() { d, err = dependency.Parse(in.Text) }); p {
		return []*mc.Violation{mc.V(scen, "parse-returns", in, "no panic", "panic: "+msg, features(in.Text)...)}, false
	}
	if err != nil {
		return nil, false
	}
	feats := features(in.Text)
	c1 := gen.CanonDep(d)
	if p, msg := mc.Guard(func() {
		r := d.String()
		d2, err := dependency.Parse(r)
		if err != nil {
			vs = append(vs, mc.V(scen, "rendering-accepted", in, "Parse(String()) succeeds", fmt.Sprintf("String()=%q: %v", r, err), feats...))
			return
		}
		if c2 := gen.CanonDep(d2); c2 != c1 {
			vs = append(vs, mc.V(scen, "structurally-identical", in, c1, fmt.Sprintf("String()=%q parses to %s", r, c2), feats...))
			return
		}
		if r2 := d2.String(); r2 != r {
			vs = append(vs, mc.V(scen, "fixpoint-in-one-step", in, r, r2, feats...))
		}
		// rendering is repeatable and does not change the value; what fmt derives from String() is the same text, for the
		// value and for a pointer to it
		if again := d.String(); again != r || gen.CanonDep(d) != c1 {
			vs = append(vs, mc.V(scen, "fixpoint-in-one-step", in, r, fmt.Sprintf("rendered a second time: %q (value now %s)", again, gen.CanonDep(d)), feats...))
		}
		for _, g := range []string{fmt.Sprintf("%v", d), fmt.Sprintf("%s", *d), fmt.Sprint(d)} {
			if g != r {
				vs = append(vs, mc.V(scen, "rendering-accepted", in, fmt.Sprintf("fmt renders the field as String() does: %q", r), fmt.Sprintf("%q", g), feats...))
				break
			}
		}
		// the same through the control marshalling interface
		m, err := d.MarshalControl()
		d3 := &dependency.Dependency{}
		if err == nil {
			err = d3.UnmarshalControl(m)
		}
		if err != nil {
			vs = append(vs, mc.V(scen, "control-roundtrip", in, c1, fmt.Sprintf("MarshalControl()=%q: %v", m, err), feats...))
		} else if c3 := gen.CanonDep(d3); c3 != c1 {
			vs = append(vs, mc.V(scen, "control-roundtrip", in, c1, fmt.Sprintf("MarshalControl()=%q parses to %s", m, c3), feats...))
		}
	}); p {
		vs = append(vs, mc.V(scen, "render-returns", in, "no panic", "panic: "+msg, feats...))
	}
	return vs, true
}

type ArchIn struct{ Name string }

func checkArch(scen string, in ArchIn) (vs []*mc.Violation, accepted bool) {
	a, err := dependency.ParseArch(in.Name)
	if err != nil {
		return nil, false
	}
	s := a.String()
	b, err := dependency.ParseArch(s)
	if err != nil {
		return []*mc.Violation{mc.V(scen, "arch-rendering-accepted", in, "ParseArch(String()) succeeds", fmt.Sprintf("%q: %v", s, err))}, true
	}
	if *a != *b {
		vs = append(vs, mc.V(scen, "arch-same-triple", in, fmt.Sprintf("%+v", *a), fmt.Sprintf("String()=%q parses to %+v", s, *b)))
	}
	var c dependency.Arch
	m, _ := a.MarshalControl()
	if err := c.UnmarshalControl(m); err != nil {
		vs = append(vs, mc.V(scen, "arch-control-roundtrip", in, fmt.Sprintf("%+v", *a), fmt.Sprintf("%q: %v", m, err)))
	} else if c != *a {
		vs = append(vs, mc.V(scen, "arch-control-roundtrip", in, fmt.Sprintf("%+v", *a), fmt.Sprintf("MarshalControl()=%q unmarshals to %+v", m, c)))
	}
	// a list of architectures (control field) as well
	l, err := dependency.ParseArchitectures(in.Name + " " + in.Name)
	if err == nil && (len(l) != 2 || l[0] != *a || l[1] != *a) && in.Name != "" {
		vs = append(vs, mc.V(scen, "arch-list-same-triple", in, fmt.Sprintf("two x %+v", *a), fmt.Sprintf("%+v", l)))
	}
	return vs, true
}

// ReuseIn: two texts decoded one after the other into the SAME value (UnmarshalControl on a reused receiver).
type ReuseIn struct{ First, Second string }

func checkReuse(scen string, in ReuseIn) []*mc.Violation {
	var vs []*mc.Violation
	fresh, err := dependency.Parse(in.Second)
	if err == nil {
		var d dependency.Dependency
		var e2 error
		if p, msg := mc.Guard(func() { d.UnmarshalControl(in.First); e2 = d.UnmarshalControl(in.Second) }); p {
			return []*mc.Violation{mc.V(scen, "parse-returns", in, "no panic", msg)}
		}
		if e2 != nil {
			vs = append(vs, mc.V(scen, "reused-value-decodes-like-a-fresh-one", in, gen.CanonDep(fresh), "error: "+e2.Error()))
		} else if got := gen.CanonDep(&d); got != gen.CanonDep(fresh) {
			vs = append(vs, mc.V(scen, "reused-value-decodes-like-a-fresh-one", in, gen.CanonDep(fresh), got))
		}
	}
	if fa, err := dependency.ParseArch(in.Second); err == nil && !strings.ContainsAny(in.Second, " ,|([<$") {
		var a dependency.Arch
		a.UnmarshalControl(in.First)
		if e := a.UnmarshalControl(in.Second); e != nil || a != *fa {
			vs = append(vs, mc.V(scen, "reused-arch-decodes-like-a-fresh-one", in, fmt.Sprintf("%+v", *fa), fmt.Sprintf("%+v %v", a, e)))
		}
	}
	return vs
}

var tokens = []string{"a", "b1", " ", ",", "|", "(", ")", "[", "]", "<", ">", "!", ":", ">=", "<<", "=", "1.0", "${", "}", "amd64", "linux-any", "any", "\n", "é"}

func Run(r *mc.Run) {
	r.Rule = "all token sequences up to the length bound over 24 tokens (fixpoint law on every accepted one); all architecture names of 1..3 components over 8 component values plus 4-part and empty-component names; non-trivial = accepted by the parser; distinct by construction"
	r.Assume = []string{"structural identity is strict (same number of relations and alternatives; nil and empty slices identified)", "tokens/lengths beyond the bound are not explored"}
	L := r.Pick(5, 6)
	// alphabet audit: literals a change introduced into the code become tokens (then with one token less, to bound the cost)
	tokens := tokens
	if extra := append(gen.AuditStrings(gen.OneLine, 4), gen.AuditChars(nil, 3)...); len(extra) > 0 {
		tokens = gen.Dedup(append(append([]string{}, tokens...), extra...))
		L--
	}
	nt := len(tokens)
	r.Scenario("token-sequences-fixpoint", map[string]interface{}{"tokens": tokens, "max_tokens": L}, nt*nt+1, func(sh int, st *mc.Stats) bool {
		visit := func(s string) bool {
			st.Evals++
			vs, acc := checkFix("token-sequences-fixpoint", In{s})
			if !acc && len(vs) == 0 {
				st.Class("rejected")
				return true
			}
			st.Nontrivial++
			st.Traces++
			if len(vs) == 0 {
				st.Class("accepted-fixpoint")
			} else {
				st.Class("accepted-broken")
			}
			for _, v := range vs {
				st.Violate(v)
			}
			if st.WantSample() && strings.Count(s, "[") == 1 && strings.HasSuffix(s, "]") && strings.HasPrefix(s, "a") {
				st.Sample(s)
			}
			return true
		}
		if sh == nt*nt {
			visit("")
			for _, t := range tokens {
				visit(t)
			}
			return true
		}
		pre := tokens[sh/nt] + tokens[sh%nt]
		for n := 0; n <= L-2; n++ {
			if r.Expired() {
				return false
			}
			gen.Odometer(tokens, n, func(s string) bool { return visit(pre + s) })
		}
		return true
	})

	// (ii) grammar-generated fields (C04's generator), default spacing and every single non-default gap, through the same law
	sh := gen.DepShapes(r.Quick())
	var bases []gen.ADep
	for i := 0; i < len(sh); i += r.Pick(3, 1) { // quick: every third shape (the product is regular; thorough takes all)
		bases = append(bases, gen.ADep{gen.ARel{sh[i]}})
	}
	bases = append(bases, gen.DepFields(gen.DepRepresentatives(), r.Pick(2, 3))...)

	r.Scenario("generated-fields-fixpoint", map[string]interface{}{"base_fields": len(bases), "spacing_deviation_bound": 1}, len(bases), func(i int, st *mc.Stats) bool {
		segs := bases[i].Segments()
		execs, div := mc.Explore(1, st, func(x *mc.X) {
			text := gen.RenderSegs(segs, func(gi int, kind gen.GapKind) string {
				alts := gen.GapAlternatives(kind)
				c := x.Deviate(1+len(alts), "gap")
				if c == 0 {
					return gen.GapDefault(kind)
				}
				return alts[c-1]
			})
			st.Evals++
			vs, acc := checkFix("generated-fields-fixpoint", In{text})
			if acc {
				st.Nontrivial++
				st.Traces++
			}
			switch {
			case !acc:
				st.Class("rejected")
			case len(vs) == 0:
				st.Class("accepted-fixpoint")
			default:
				st.Class("accepted-broken")
			}
			for _, v := range vs {
				st.Violate(v)
			}
			if st.WantSample() && i%499 == 3 {
				st.Sample(text)
			}
		})
		st.States += execs
		if div != "" {
			st.Violate(mc.V("generated-fields-fixpoint", "harness-replay-divergence", In{bases[i].Render()}, "deterministic", div))
		}
		return true
	})

	// fields larger than the products reach: many relations / alternatives / architectures / groups / stages
	lg := gen.LargeDeps()
	r.Scenario("large-fields-fixpoint", map[string]interface{}{"fields": len(lg), "renderings": "default spacing; one relation per folded line"}, len(lg), func(i int, st *mc.Stats) bool {
		for _, folded := range []bool{false, true} {
			text := lg[i].Render()
			if folded {
				text = strings.ReplaceAll(text, ", ", ",\n ")
			}
			st.Evals++
			st.Traces++
			st.Nontrivial++
			vs, _ := checkFix("large-fields-fixpoint", In{text})
			if len(vs) == 0 {
				st.Class("accepted-fixpoint")
			} else {
				st.Class("accepted-broken")
			}
			for _, v := range vs {
				st.Violate(v)
			}
		}
		return true
	})

	// parse, render and re-parse at the same time on independent fields: every schedule of small thread programs
	sched.Explore(r, "concurrent-calls", c06.ConcurrentPrograms())

	// decoding into a value that already holds something
	reuse := []string{"", "a", "a, b | c", "x:any (>= 1) [amd64 !i386] <!p q> <r>", "${misc:Depends}", "foo (>= 1", "amd64", "linux-any", "gnu-kfreebsd-amd64", "any", "all", "hurd-i386", "a [x]", "b <p>"}
	reuse = append(reuse, gen.AuditStrings(gen.Nameish, 3)...)
	r.Scenario("decode-into-reused-value", map[string]interface{}{"texts": reuse}, len(reuse), func(i int, st *mc.Stats) bool {
		for _, y := range reuse {
			st.Evals++
			st.Traces++
			st.Nontrivial++
			vs := checkReuse("decode-into-reused-value", ReuseIn{reuse[i], y})
			if len(vs) == 0 {
				st.Class("as-fresh")
			}
			for _, v := range vs {
				st.Violate(v)
				st.Class(v.Clause)
			}
		}
		return true
	})

	// architecture names
	comps := append([]string{"any", "all", "linux", "gnu", "musl", "kfreebsd", "amd64", "x"}, gen.AuditStrings(func(s string) bool { return gen.Nameish(s) && !strings.Contains(s, "-") }, 3)...)
	var names []string
	for _, a := range comps {
		names = append(names, a)
		for _, b := range comps {
			names = append(names, a+"-"+b)
			for _, c := range comps {
				names = append(names, a+"-"+b+"-"+c)
			}
		}
	}
	// the same names with one component in upper case, first letter upper case, or all components upper case (names are
	// compared as written: an upper-case "ANY" or "GNU" is a name of its own, not the wildcard / the default ABI)
	base := []string{"any", "all", "linux", "gnu", "amd64"}
	var lower []string
	for _, a := range base {
		lower = append(lower, a)
		for _, b := range base {
			lower = append(lower, a+"-"+b)
			for _, c := range base {
				lower = append(lower, a+"-"+b+"-"+c)
			}
		}
	}
	for _, n := range lower {
		parts := strings.Split(n, "-")
		for i := range parts {
			q := append([]string{}, parts...)
			q[i] = strings.ToUpper(q[i])
			names = append(names, strings.Join(q, "-"))
			q[i] = strings.ToUpper(parts[i][:1]) + parts[i][1:]
			names = append(names, strings.Join(q, "-"))
		}
		names = append(names, strings.ToUpper(n))
	}
	names = gen.Dedup(names)
	names = append(names, gen.AuditStrings(gen.Nameish, 6)...) // alphabet audit: whole architecture names a change introduced
	names = append(names, "gnueabihf-linux-arm", "gnueabi-linux-arm", "gnux32-linux-amd64", "uclibc-linux-armel", "armhf", "armel", "x32", "arm64", "riscv64", "hurd-amd64")
	names = append(names, "a-b-c-d", "gnu-linux-amd64-x", "", "-", "a-", "-a", "a--b", "--", "any-", "-any", "all-all", "all-amd64", "gnu-all-all", "é", "i386", "armhf", "hurd-i386", "gnueabihf-linux-arm")
	// every architecture name also inside a dependency: as a bracket-list entry (alone, negated, first and last of
	// several) and as a qualifier - the list parser and the qualifier parser have their own paths to the name parser
	r.Scenario("arch-names-inside-fields", map[string]interface{}{"names": len(names), "templates": []string{"a [N]", "a [!N]", "a [amd64 N]", "a [N i386]", "a [!N !i386]", "a:N", "a:N [N] | b [!N]"}}, 8, func(sh int, st *mc.Stats) bool {
		for i := sh; i < len(names); i += 8 {
			n := names[i]
			for _, t := range []string{"a [" + n + "]", "a [!" + n + "]", "a [amd64 " + n + "]", "a [" + n + " i386]", "a [!" + n + " !i386]", "a:" + n, "a:" + n + " [" + n + "] | b [!" + n + "]"} {
				st.Evals++
				vs, acc := checkFix("arch-names-inside-fields", In{t})
				switch {
				case !acc && len(vs) == 0:
					st.Class("rejected")
				case len(vs) == 0:
					st.Class("accepted-fixpoint")
					st.Nontrivial++
					st.Traces++
				default:
					st.Class("accepted-broken")
					st.Nontrivial++
					st.Traces++
				}
				for _, v := range vs {
					st.Violate(v)
				}
			}
		}
		return true
	})
	// characters that Unicode calls white space but the field grammar does not (only blank, tab and newline separate
	// tokens): wherever the parser accepts one inside a token, the rendering must keep it
	var uni []string
	for _, c := range []string{"\f", "\v", "\u00a0", "\u0085", "\u2003", "\u3000", "\u200b", "\ufeff"} {
		for _, t := range []string{"a%sb", "%sa", "a%s", "a (>= 1%s)", "a (>= 1%s2)", "a (>=%s1)", "a [amd64%s]", "a [amd64%si386]", "a <p%sq>", "a <p%s>", "a:any%s", "a%s| b", "a%s, b", "${x%sy}", "a (>= 1) [amd64] <p>%s"} {
			uni = append(uni, fmt.Sprintf(t, c))
		}
	}
	// substvars next to what would be a restriction of a package, and with white space inside the braces
	for _, t := range []string{"${x} (>= 3.9)", "${x}(>= 1)", "${x} [linux-any]", "${x} <!p>", "${x} (>= 1) [amd64] <p>", "a | ${x} [linux-any]", "a | ${x} (>= 1), b", "${x} | b (>= 1)",
		"${ x }", "${ x}", "${x }", "${x\n}", "${\tx:y\t}", "${x y}", "${ }", "${}", "a (= ${ v })", "a (= ${v}) [amd64]", "${x}, ${ y }, b", "${x}:any", "${x} | ${y} <p>"} {
		uni = append(uni, t)
	}
	r.Scenario("unicode-space-characters", map[string]interface{}{"characters": "FF VT NBSP NEL EM-SPACE IDEOGRAPHIC-SPACE ZWSP BOM", "also": "substvars followed by restrictions / with white space inside the braces", "texts": len(uni)}, 1, func(_ int, st *mc.Stats) bool {
		for _, t := range uni {
			st.Evals++
			vs, acc := checkFix("unicode-space-characters", In{t})
			switch {
			case !acc && len(vs) == 0:
				st.Class("rejected")
			case len(vs) == 0:
				st.Class("accepted-fixpoint")
				st.Nontrivial++
				st.Traces++
			default:
				st.Class("accepted-broken")
				st.Nontrivial++
				st.Traces++
			}
			for _, v := range vs {
				st.Violate(v)
			}
		}
		return true
	})
	// characters that mean something to the machinery a renderer may be built from (fmt verbs, separators re-used for
	// folding): per cent signs in every part of a possibility, and substvar names that contain the separators of the
	// field - alone, and inside fields long enough to be folded
	var odd []string
	for _, name := range []string{"lib%s-dev", "%d", "100%", "a%!b", "%%", "%v%v", "x"} {
		for _, qual := range []string{"", ":any", ":%s"} {
			for _, ver := range []string{"", " (>= 1.0)", " (= 1%s)", " (<< %d.0)"} {
				for _, arch := range []string{"", " [amd64]", " [%s-any]", " [!%d]"} {
					for _, prof := range []string{"", " <p>", " <!%s>", " <a %v> <b>"} {
						odd = append(odd, name+qual+ver+arch+prof)
					}
				}
			}
		}
	}
	filler := "libc6 (>= 2.17), libfoo1 (>= 1.0), libbar2 | libbar1 [amd64], zlib1g, "
	for _, sv := range []string{"${shlibs:Depends, misc:Depends}", "${a, b}", "${a | b}", "${a,\n b}", "${a},${b}", "${x:y (>= 1)}", "${ , }", "${a,b}"} {
		odd = append(odd, sv, "a, "+sv, sv+", b", filler+sv, filler+filler+sv+", tail (>= 1)", "a | "+sv+" | b, "+filler+"c")
	}
	for _, name := range []string{"lib%s-dev (>= 1.0)", "100% [amd64] <p>"} {
		odd = append(odd, filler+name, filler+filler+name+", "+filler+"z")
	}
	r.Scenario("format-verbs-and-separators-in-names", map[string]interface{}{"texts": len(odd), "shape": "per cent signs in names, qualifiers, version numbers, architecture entries and profile names; substvar names containing ', ' / ' | ' / a line break, alone and in fields of 80..300 bytes"}, 8, func(sh int, st *mc.Stats) bool {
		for i := sh; i < len(odd); i += 8 {
			st.Evals++
			vs, acc := checkFix("format-verbs-and-separators-in-names", In{odd[i]})
			switch {
			case !acc && len(vs) == 0:
				st.Class("rejected")
			case len(vs) == 0:
				st.Class("accepted-fixpoint")
				st.Nontrivial++
				st.Traces++
			default:
				st.Class("accepted-broken")
				st.Nontrivial++
				st.Traces++
			}
			for _, v := range vs {
				st.Violate(v)
			}
		}
		return true
	})

	r.Scenario("arch-names-roundtrip", map[string]interface{}{"components": comps, "names": len(names)}, 8, func(sh int, st *mc.Stats) bool {
		for i := sh; i < len(names); i += 8 {
			st.Evals++
			vs, acc := checkArch("arch-names-roundtrip", ArchIn{names[i]})
			if !acc {
				st.Class("rejected")
				continue
			}
			st.Nontrivial++
			st.Traces++
			if len(vs) == 0 {
				st.Class("same-triple")
			} else {
				st.Class("changed")
			}
			for _, v := range vs {
				st.Violate(v)
			}
			if st.WantSample() && i%61 == 9 {
				a, _ := dependency.ParseArch(names[i])
				st.Sample(map[string]string{"name": names[i], "rendered": a.String()})
			}
		}
		return true
	})
}

func Replay(scenario string, raw json.RawMessage) []*mc.Violation {
	if scenario == "concurrent-calls" {
		return sched.Replay(scenario, c06.ConcurrentPrograms(), raw)
	}
	if scenario == "decode-into-reused-value" {
		var in ReuseIn
		if mc.UnmarshalInput(raw, &in) == nil {
			return checkReuse(scenario, in)
		}
		return nil
	}
	if scenario == "arch-names-roundtrip" {
		var in ArchIn
		if mc.UnmarshalInput(raw, &in) == nil {
			vs, _ := checkArch(scenario, in)
			return vs
		}
		return nil
	}
	var in In
	if mc.UnmarshalInput(raw, &in) == nil {
		vs, _ := checkFix(scenario, in)
		return vs
	}
	return nil
}
