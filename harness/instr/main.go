// Command instr generates, from the CURRENT sources of the repository under test, a `go build -overlay` file that
// (a) puts the iteration order of every `for ... range <map>` of the module under explorer control,
// (b) turns every use of a package-level variable of the module into a scheduling point,
// (c) inserts a yield at every loop iteration of the parser packages,
// (d) routes the os.* file-system calls of packages control and internal through verifhook,
// and adds the virtual package pault.ag/go/debian/verifhook. The repository itself is never modified.
//
// usage: instr -repo /repo -hook /verif/harness/hook/hook.go -out <tmpdir>   (writes <tmpdir>/overlay.json and report.json)
package main

import (
	"bytes"
	"encoding/json"
	"flag"
	"fmt"
	"go/ast"
	"go/format"
	"go/token"
	"go/types"
	"os"
	"path/filepath"
	"sort"
	"strings"

	"golang.org/x/tools/go/ast/astutil"
	"golang.org/x/tools/go/packages"
)

const hookPath = "pault.ag/go/debian/verifhook"

type report struct {
	MapRangeSites  []string `json:"map_range_sites"`
	PkgVarSites    []string `json:"pkgvar_access_sites"`
	PkgVars        []string `json:"package_level_vars"`
	YieldSites     int      `json:"yield_sites"`
	SyncSites      []string `json:"sync_call_sites"`
	OsCallSites    []string `json:"os_call_sites"`
	RewrittenFiles []string `json:"rewritten_files"`
}

var osFuncs = map[string]bool{"Open": true, "Create": true, "Stat": true, "Rename": true, "Remove": true}

func main() {
	repo := flag.String("repo", "/repo", "repository root")
	hook := flag.String("hook", "", "path of hook.go")
	out := flag.String("out", "", "output directory")
	flag.Parse()
	if *out == "" || *hook == "" {
		fmt.Fprintln(os.Stderr, "need -out and -hook")
		os.Exit(2)
	}
	cfg := &packages.Config{Mode: packages.NeedName | packages.NeedFiles | packages.NeedSyntax | packages.NeedTypes | packages.NeedTypesInfo | packages.NeedImports,
		Dir: *repo, Env: append(os.Environ(), "GOFLAGS=-mod=mod")}
	pkgs, err := packages.Load(cfg, "./...")
	if err != nil {
		fmt.Fprintln(os.Stderr, "load:", err)
		os.Exit(2)
	}
	if packages.PrintErrors(pkgs) > 0 {
		os.Exit(2)
	}
	rep := report{}
	overlay := map[string]string{}
	site := 0
	modPrefix := "pault.ag/go/debian"
	for _, p := range pkgs {
		if !strings.HasPrefix(p.PkgPath, modPrefix) {
			continue
		}
		short := strings.TrimPrefix(strings.TrimPrefix(p.PkgPath, modPrefix), "/")
		parserPkg := short == "version" || short == "dependency" || short == "control" || short == "changelog"
		// package-level variables of this package
		pkgVars := map[types.Object]bool{}
		for _, name := range p.Types.Scope().Names() {
			if v, ok := p.Types.Scope().Lookup(name).(*types.Var); ok {
				pkgVars[v] = true
				rep.PkgVars = append(rep.PkgVars, p.PkgPath+"."+name)
			}
		}
		for _, f := range p.Syntax {
			fname := p.Fset.Position(f.Pos()).Filename
			if strings.HasSuffix(fname, "_test.go") {
				continue
			}
			changed := false
			// which declarations are function bodies (we only rewrite inside functions)
			inFunc := func(c *astutil.Cursor) bool {
				return true
			}
			_ = inFunc
			recvIsPtr, recvKnown := map[*ast.CallExpr]bool{}, map[*ast.CallExpr]bool{}
			for _, decl := range f.Decls {
				fd, ok := decl.(*ast.FuncDecl)
				if !ok || fd.Body == nil {
					continue
				}
				astutil.Apply(fd.Body, func(c *astutil.Cursor) bool {
					n := c.Node()
					if call, ok := n.(*ast.CallExpr); ok {
						// remember the receiver's type of a sync method call before the receiver expression is rewritten
						if sel, ok := call.Fun.(*ast.SelectorExpr); ok {
							if tv, ok := p.TypesInfo.Types[sel.X]; ok && tv.Type != nil {
								_, isPtr := tv.Type.Underlying().(*types.Pointer)
								recvIsPtr[call] = isPtr
								recvKnown[call] = true
							}
						}
					}
					switch x := n.(type) {
					case *ast.RangeStmt:
						// (a) map ranges in every package of the module (today only package deb has any)
						if true {
							if tv, ok := p.TypesInfo.Types[x.X]; ok {
								if _, isMap := tv.Type.Underlying().(*types.Map); isMap {
									site++
									rep.MapRangeSites = append(rep.MapRangeSites, fmt.Sprintf("%d=%s", site, p.Fset.Position(x.Pos())))
									c.Replace(rewriteMapRange(x, site))
									changed = true
									return true
								}
							}
						}
					case *ast.SelectorExpr:
						// (d) os.X(...) in control and internal
						if short == "control" || short == "internal" {
							if id, ok := x.X.(*ast.Ident); ok && osFuncs[x.Sel.Name] {
								if pn, ok := p.TypesInfo.Uses[id].(*types.PkgName); ok && pn.Imported().Path() == "os" {
									rep.OsCallSites = append(rep.OsCallSites, p.Fset.Position(x.Pos()).String())
									id.Name = "verifhook" // in place: keeps the node's position information intact for the printer
									changed = true
									return false
								}
							}
						}
					case *ast.Ident:
						// (b) uses of package-level variables of the module (this package's own; cross-package uses appear as selectors below)
						if obj := p.TypesInfo.Uses[x]; obj != nil && pkgVars[obj] {
							if _, isSel := c.Parent().(*ast.SelectorExpr); isSel && c.Name() == "Sel" {
								return true
							}
							if kv, ok := c.Parent().(*ast.KeyValueExpr); ok && kv.Key == n {
								return true
							}
							site++
							rep.PkgVarSites = append(rep.PkgVarSites, fmt.Sprintf("%d=%s %s", site, p.Fset.Position(x.Pos()), x.Name))
							c.Replace(accessExpr(x, site))
							changed = true
							return false
						}
					}
					return true
				}, func(c *astutil.Cursor) bool {
					// (c) yields at the top of every loop body of the parser packages (post-order so that replaced nodes are final)
					// (e) calls of sync.Mutex / sync.RWMutex / sync.Once methods in every package of the module go through
					// verifhook so that a cooperative scheduler can model the wait (post-order: the receiver expression has
					// been rewritten already)
					if call, ok := c.Node().(*ast.CallExpr); ok {
						if sel, ok := call.Fun.(*ast.SelectorExpr); ok {
							if fn, ok := p.TypesInfo.Uses[sel.Sel].(*types.Func); ok && fn.Pkg() != nil && fn.Pkg().Path() == "sync" {
								hook := map[string]string{"Lock": "Lock", "Unlock": "Unlock", "RLock": "RLock", "RUnlock": "RUnlock", "Do": "OnceDo"}[fn.Name()]
								recv := ""
								if sig, ok := fn.Type().(*types.Signature); ok && sig.Recv() != nil {
									t := sig.Recv().Type()
									if pt, ok := t.(*types.Pointer); ok {
										t = pt.Elem()
									}
									if n, ok := t.(*types.Named); ok {
										recv = n.Obj().Name()
									}
								}
								okRecv := recv == "Mutex" || recv == "RWMutex" || (recv == "Once" && fn.Name() == "Do")
								if hook != "" && okRecv && recvKnown[call] {
									site++
									rep.SyncSites = append(rep.SyncSites, fmt.Sprintf("%d=%s %s.%s", site, p.Fset.Position(call.Pos()), recv, fn.Name()))
									var arg ast.Expr = sel.X
									if !recvIsPtr[call] {
										arg = &ast.UnaryExpr{Op: token.AND, X: sel.X}
									}
									args := []ast.Expr{arg}
									args = append(args, call.Args...)
									args = append(args, &ast.BasicLit{Kind: token.INT, Value: fmt.Sprint(site)})
									c.Replace(&ast.CallExpr{Fun: &ast.SelectorExpr{X: ast.NewIdent("verifhook"), Sel: ast.NewIdent(hook)}, Args: args})
									changed = true
									return true
								}
							}
						}
					}
					if !parserPkg {
						return true
					}
					var body *ast.BlockStmt
					switch x := c.Node().(type) {
					case *ast.ForStmt:
						body = x.Body
					case *ast.RangeStmt:
						body = x.Body
					}
					if body != nil {
						site++
						rep.YieldSites++
						call := &ast.ExprStmt{X: &ast.CallExpr{Fun: &ast.SelectorExpr{X: ast.NewIdent("verifhook"), Sel: ast.NewIdent("Yield")},
							Args: []ast.Expr{&ast.BasicLit{Kind: token.INT, Value: fmt.Sprint(site)}}}}
						body.List = append([]ast.Stmt{call}, body.List...)
						changed = true
					}
					return true
				})
			}
			if !changed {
				continue
			}
			astutil.AddImport(p.Fset, f, hookPath)
			// keep a possibly now-unused "os" import legal
			if usesImport(f, "os") {
				f.Decls = append(f.Decls, &ast.GenDecl{Tok: token.VAR, Specs: []ast.Spec{&ast.ValueSpec{Names: []*ast.Ident{ast.NewIdent("_")},
					Values: []ast.Expr{&ast.SelectorExpr{X: ast.NewIdent("os"), Sel: ast.NewIdent("Getpid")}}}}})
			}
			// Print from structure alone: the rewritten tree mixes nodes with and without position information, which
			// makes the printer place line breaks inside expressions. Comments are dropped (the files carry no build
			// constraints), then an empty file set makes every position "unknown".
			f.Comments = nil
			var buf bytes.Buffer
			if err := format.Node(&buf, token.NewFileSet(), f); err != nil {
				fmt.Fprintln(os.Stderr, "format", fname, err)
				os.Exit(2)
			}
			rel, _ := filepath.Rel(*repo, fname)
			dst := filepath.Join(*out, "src", rel)
			os.MkdirAll(filepath.Dir(dst), 0o755)
			if err := os.WriteFile(dst, buf.Bytes(), 0o644); err != nil {
				fmt.Fprintln(os.Stderr, err)
				os.Exit(2)
			}
			overlay[fname] = dst
			rep.RewrittenFiles = append(rep.RewrittenFiles, rel)
		}
	}
	overlay[filepath.Join(*repo, "verifhook", "hook.go")] = *hook
	sort.Strings(rep.RewrittenFiles)
	ob, _ := json.MarshalIndent(map[string]interface{}{"Replace": overlay}, "", " ")
	if err := os.WriteFile(filepath.Join(*out, "overlay.json"), ob, 0o644); err != nil {
		fmt.Fprintln(os.Stderr, err)
		os.Exit(2)
	}
	rb, _ := json.MarshalIndent(rep, "", " ")
	os.WriteFile(filepath.Join(*out, "report.json"), rb, 0o644)
	fmt.Printf("instr: %d files rewritten: %d map ranges, %d package-variable uses, %d yields, %d os calls, %d sync calls\n",
		len(rep.RewrittenFiles), len(rep.MapRangeSites), len(rep.PkgVarSites), rep.YieldSites, len(rep.OsCallSites), len(rep.SyncSites))
}

func usesImport(f *ast.File, path string) bool {
	for _, im := range f.Imports {
		if strings.Trim(im.Path.Value, `"`) == path {
			return true
		}
	}
	return false
}

// accessExpr builds (*verifhook.Access(&X, site)).
func accessExpr(x *ast.Ident, site int) ast.Expr {
	return &ast.ParenExpr{X: &ast.StarExpr{X: &ast.CallExpr{
		Fun:  &ast.SelectorExpr{X: ast.NewIdent("verifhook"), Sel: ast.NewIdent("Access")},
		Args: []ast.Expr{&ast.UnaryExpr{Op: token.AND, X: ast.NewIdent(x.Name)}, &ast.BasicLit{Kind: token.INT, Value: fmt.Sprint(site)}},
	}}}
}

// rewriteMapRange turns  for k, v := range M { body }  into
//
//	{ verifMapN := M
//	  for _, verifKeyN := range verifhook.Keys(verifMapN, N) { k := verifKeyN; _ = k; v := verifMapN[verifKeyN]; _ = v; body } }
func rewriteMapRange(x *ast.RangeStmt, site int) ast.Stmt {
	mName := fmt.Sprintf("verifMap%d", site)
	kName := fmt.Sprintf("verifKey%d", site)
	tok := x.Tok
	if tok == token.ILLEGAL {
		tok = token.DEFINE
	}
	var pre []ast.Stmt
	if x.Key != nil {
		if id, ok := x.Key.(*ast.Ident); !ok || id.Name != "_" {
			pre = append(pre, &ast.AssignStmt{Lhs: []ast.Expr{x.Key}, Tok: tok, Rhs: []ast.Expr{ast.NewIdent(kName)}})
			pre = append(pre, &ast.AssignStmt{Lhs: []ast.Expr{ast.NewIdent("_")}, Tok: token.ASSIGN, Rhs: []ast.Expr{x.Key}})
		}
	}
	if x.Value != nil {
		if id, ok := x.Value.(*ast.Ident); !ok || id.Name != "_" {
			pre = append(pre, &ast.AssignStmt{Lhs: []ast.Expr{x.Value}, Tok: tok, Rhs: []ast.Expr{&ast.IndexExpr{X: ast.NewIdent(mName), Index: ast.NewIdent(kName)}}})
			pre = append(pre, &ast.AssignStmt{Lhs: []ast.Expr{ast.NewIdent("_")}, Tok: token.ASSIGN, Rhs: []ast.Expr{x.Value}})
		}
	}
	body := &ast.BlockStmt{List: append(pre, x.Body.List...)}
	loop := &ast.RangeStmt{Key: ast.NewIdent("_"), Value: ast.NewIdent(kName), Tok: token.DEFINE,
		X: &ast.CallExpr{Fun: &ast.SelectorExpr{X: ast.NewIdent("verifhook"), Sel: ast.NewIdent("Keys")},
			Args: []ast.Expr{ast.NewIdent(mName), &ast.BasicLit{Kind: token.INT, Value: fmt.Sprint(site)}}},
		Body: body}
	return &ast.BlockStmt{List: []ast.Stmt{
		&ast.AssignStmt{Lhs: []ast.Expr{ast.NewIdent(mName)}, Tok: token.DEFINE, Rhs: []ast.Expr{x.X}},
		loop,
	}}
}
